// C02 — detailed placement keeps every exposed state legal; multi-row cells
// stay where legalization put them; never fails where legalization succeeds.
// Layers: (a) placeDetailed with callbacks, (b) optimiser passes driven
// directly, (c) exhaustive swap/insert histories on the row data structure.
#include <unordered_map>

#include "detailed_common.hpp"
#include "place_detailed/detailed_placement.hpp"

namespace verif {
const char *propId() { return "C02"; }

namespace {
constexpr uint32_t kExplicit = 0xE7E7E7E7u;

// ---------------------------------------------------------------- layer (c)
struct RowCfg {
  std::vector<Row> rows;
};
std::vector<RowCfg> rowConfigs(bool thorough) {
  std::vector<RowCfg> v;
  RowCfg a;
  a.rows = {Row(0, thorough ? 8 : 7, 0, 1, CellOrientation::N)};
  RowCfg b;
  b.rows = {Row(0, 5, 0, 1, CellOrientation::N), Row(0, 5, 1, 2, CellOrientation::FS)};
  RowCfg c;
  c.rows = {Row(0, 3, 0, 1, CellOrientation::N), Row(4, 7, 0, 1, CellOrientation::N), Row(1, 5, 1, 2, CellOrientation::FS)};
  v.push_back(a), v.push_back(b), v.push_back(c);
  return v;
}

/// Independent structural predicate on a DetailedPlacement.
std::string structureError(const DetailedPlacement &p, const std::vector<int> &widths) {
  int n = p.nbCells();
  std::vector<int> seen(n, 0);
  for (int r = 0; r < p.nbRows(); ++r) {
    int prev = -1;
    long long end = p.rows()[r].minX;
    int guard = 0;
    for (int c = p.rowFirstCell(r); c != -1; c = p.cellNext(c)) {
      if (++guard > n + 1) return "cycle in a row list";
      if (c < 0 || c >= n) return "bad cell index in a row list";
      ++seen[c];
      if (p.cellRow(c) != r) return "cell listed in a row it does not belong to";
      if (p.cellPred(c) != prev) return "pred/next are not mutually consistent";
      if (p.cellY(c) != p.rows()[r].minY) return "cellY differs from the row y";
      if (p.cellX(c) < end) return prev == -1 ? "cell before the row start" : "cells overlap or are not sorted by x";
      end = (long long)p.cellX(c) + widths[c];
      prev = c;
    }
    if (end > p.rows()[r].maxX) return "cell beyond the row end";
    if (p.rowLastCell(r) != prev) return "rowLastCell inconsistent";
  }
  for (int c = 0; c < n; ++c)
    if (seen[c] != 1) return "a cell is in " + std::to_string(seen[c]) + " row lists";
  return "";
}

uint64_t stateHash(const DetailedPlacement &p) {
  Hasher h;
  for (int c = 0; c < p.nbCells(); ++c) h.add(p.cellRow(c)).add(p.cellX(c));
  return h.h;
}

struct Op {
  int kind, a, b, c;  // kind 0: swap(a,b); kind 1: insert(a,row b,pred c)
};

/// Apply one operation with the canX / throws contract; "" when fine.
std::string applyOp(DetailedPlacement &p, const std::vector<int> &widths, const Op &op, bool &accepted) {
  bool can;
  try {
    can = op.kind == 0 ? p.canSwap(op.a, op.b) : p.canInsert(op.a, op.b, op.c);
  } catch (const std::exception &e) {
    return std::string("canSwap/canInsert threw on placed cells: ") + e.what();
  }
  accepted = can;
  uint64_t before = stateHash(p);
  bool threw = false;
  try {
    if (op.kind == 0) p.swap(op.a, op.b);
    else p.insert(op.a, op.b, op.c);
  } catch (const std::exception &) {
    threw = true;
  }
  std::ostringstream d;
  d << (op.kind == 0 ? "swap(" : "insert(") << op.a << "," << op.b;
  if (op.kind == 1) d << "," << op.c;
  d << ")";
  if (can && threw) return d.str() + " was announced feasible but threw";
  if (!can && !threw) return d.str() + " was announced infeasible but did not throw";
  if (!can && stateHash(p) != before) return d.str() + " was refused but changed the placement";
  if (can) {
    try {
      p.check();
    } catch (const std::exception &e) {
      return d.str() + " left an inconsistent structure: " + e.what();
    }
    std::string se = structureError(p, widths);
    if (!se.empty()) return d.str() + " broke the placement: " + se;
  }
  return "";
}

struct Enumerator {
  Report &R;
  std::vector<int> widths;
  int maxDepth;
  std::unordered_map<uint64_t, int> visited;  // state -> remaining depth explored
  std::vector<Op> path;
  long long accepted = 0, refused = 0;
  std::string err;

  bool dfs(const DetailedPlacement &p, int depth) {
    uint64_t h = stateHash(p);
    auto it = visited.find(h);
    if (it != visited.end() && it->second >= depth) return true;
    if (it == visited.end()) {
      ++R.exhaustiveStates;
      ++R.nontrivialCount;
      R.heartbeat();
    }
    visited[h] = depth;
    if (depth == 0) return true;
    int n = p.nbCells();
    std::vector<Op> ops;
    for (int a = 0; a < n; ++a)
      for (int b = 0; b < n; ++b) ops.push_back({0, a, b, 0});
    for (int a = 0; a < n; ++a)
      for (int r = 0; r < p.nbRows(); ++r) {
        ops.push_back({1, a, r, -1});
        for (int c = p.rowFirstCell(r); c != -1; c = p.cellNext(c)) ops.push_back({1, a, r, c});
      }
    for (const Op &op : ops) {
      DetailedPlacement q = p;
      bool acc = false;
      std::string e = applyOp(q, widths, op, acc);
      path.push_back(op);
      if (!e.empty()) {
        err = e;
        return false;
      }
      if (acc) {
        ++accepted;
        if (!dfs(q, depth - 1)) return false;
      } else {
        ++refused;
      }
      path.pop_back();
    }
    return true;
  }
};

/// All legal initial placements of the given widths in the row configuration.
void enumerateInitial(const RowCfg &cfg, const std::vector<int> &widths, size_t i, std::vector<int> &px,
                      std::vector<int> &py, const std::function<void()> &f) {
  if (i == widths.size()) {
    f();
    return;
  }
  for (const Row &r : cfg.rows)
    for (int x = r.minX; x + widths[i] <= r.maxX; ++x) {
      bool ok = true;
      for (size_t j = 0; j < i && ok; ++j)
        if (py[j] == r.minY && px[j] < x + widths[i] && x < px[j] + widths[j]) ok = false;
      if (!ok) continue;
      px[i] = x;
      py[i] = r.minY;
      enumerateInitial(cfg, widths, i + 1, px, py, f);
    }
}

Tape encodePath(int cfgId, const std::vector<int> &widths, const std::vector<int> &px, const std::vector<int> &py,
                const std::vector<Op> &path, bool thorough) {
  Tape t;
  t.w = {kExplicit, (uint32_t)thorough, (uint32_t)cfgId, (uint32_t)widths.size()};
  for (size_t i = 0; i < widths.size(); ++i) {
    t.w.push_back((uint32_t)widths[i]);
    t.w.push_back((uint32_t)px[i]);
    t.w.push_back((uint32_t)py[i]);
  }
  t.w.push_back((uint32_t)path.size());
  for (auto &op : path) {
    t.w.push_back((uint32_t)op.kind);
    t.w.push_back((uint32_t)op.a);
    t.w.push_back((uint32_t)op.b);
    t.w.push_back((uint32_t)op.c);
  }
  return t;
}

bool replayExplicit(Tape &t, Report &R) {
  t.next();
  bool thorough = t.next() & 1;
  auto cfgs = rowConfigs(thorough);
  const RowCfg &cfg = cfgs[t.next() % cfgs.size()];
  int n = 1 + (int)((t.next() - 1) % 4);
  std::vector<int> widths(n), px(n), py(n);
  for (int i = 0; i < n; ++i) {
    widths[i] = 1 + (int)((t.next() - 1) % 3);
    px[i] = (int)(t.next() % 8);
    py[i] = (int)(t.next() % 2);
  }
  int len = (int)(t.next() % 8);
  try {
    DetailedPlacement p = DetailedPlacement::fromPos(cfg.rows, widths, px, py);
    for (int k = 0; k < len; ++k) {
      Op op;
      op.kind = (int)(t.next() % 2);
      op.a = (int)(t.next() % n);
      op.b = (int)(t.next() % (op.kind == 0 ? n : p.nbRows()));
      op.c = (int)(int32_t)t.next();
      if (op.kind == 1) {
        // pred must be -1 or a cell of that row
        bool ok = op.c == -1;
        for (int c = p.rowFirstCell(op.b); c != -1; c = p.cellNext(c)) ok |= c == op.c;
        if (!ok) op.c = -1;
      }
      bool acc;
      std::string e = applyOp(p, widths, op, acc);
      if (!e.empty()) return R.fail("row structure: " + e);
    }
  } catch (const std::exception &) {
    return true;  // not a legal initial placement: outside the enumerated domain
  }
  return true;
}
}  // namespace

bool prop(Tape &t, Report &R) {
  if (!t.w.empty() && t.w[0] == kExplicit) return replayExplicit(t, R);
  HistoryScope hist(t, R);
  GenOpts o;
  o.polarisedPct = 50;
  o.mismatchPct = 30;  // NW/SE single-row cells next to SAME/ANY ones: rows they may not enter
  if (R.thorough()) o.maxCells = 50, o.maxLevels = 12;
  CircuitSpec s = genCircuit(t, o);
  ParamOpts po;
  ColoquinteParameters params = genParams(t, po, &s.labels);
  if (t.flip(1, 3)) {
    // reordering and wide windows are the non-default corners
    params.detailed.reorderingNbRows = t.choose(1, 3);
    params.detailed.reorderingMaxNbCells = t.choose(2, 5);
    s.labels.insert("params:reordering");
  }
  for (auto &l : s.labels) R.classify(l);
  if (s.nbMovable() == 0) {
    R.discard("no movable cell");
    return true;
  }
  DetailedObserver ob;
  ob.checkLegality = true;
  bool direct = t.flip(1, 3);
  if (!direct) {
    R.classify("layer:a-top-level");
    TopLevelOutcome out = runTopLevel(s, params, ob, false);
    if (out.discarded) {
      R.discard(out.discardWhy);
      return true;
    }
    if (!out.error.empty()) return R.fail(out.error + " " + s.json());
    if (out.callbacks >= 2 && out.moved) R.nontrivial(s.hash(), [&] { return s.json(24); });
  } else {
    R.classify("layer:b-direct-drive");
    std::string hist;
    DirectOutcome out = runDirect(s, params, t, ob, false, &hist);
    if (out.discarded) {
      R.discard(out.discardWhy);
      return true;
    }
    if (!out.error.empty()) return R.fail(out.error + " " + s.json());
    if (out.valueChanged)
      R.nontrivial(s.hash() ^ Hasher().add(out.passes).h, [&] {
        return "{\"history\":\"" + hist + "\",\"circuit\":" + s.json(16) + "}";
      });
  }
  // occasionally also a large companion instance through the top-level call
  // (decided at the very end of the tape so that older tapes keep their meaning)
  uint32_t tail = t.next();
  if (tail % 32 == 1) {
    CircuitSpec big = genLargeCircuit(tail, o, 150);
    if (big.nbMovable() > 0) {
      R.classify(big.nbMovable() >= 100 ? "large:100+cells" : "large:<100cells");
      DetailedObserver ob2;
      ob2.checkLegality = true;
      TopLevelOutcome out = runTopLevel(big, params, ob2, false);
      if (out.discarded) {
        if (out.discardWhy.rfind("known:", 0) == 0) R.exclude(out.discardWhy.substr(6));
        return true;
      }
      if (!out.error.empty()) return R.fail(out.error + " " + big.json());
    }
  }
  // the same case presented differently (decided after everything else): rows handed over in
  // another order, on a Circuit object that was placed before with its fixed cells elsewhere
  // and then brought to these contents through its setters
  uint32_t hw = t.next();
  if (hw % 3 == 1) {
    CircuitSpec s2 = s;
    R.classify(permuteRows(s2, hw >> 4));
    std::string route;
    Circuit h = buildWithHistory(s2, hw, [&](Circuit &c) { c.placeDetailed(params); }, &route);
    R.classify("history:placeDetailed," + route + ",placeDetailed");
    DetailedObserver ob3;
    ob3.checkLegality = true;
    TopLevelOutcome out = runTopLevel(s2, params, ob3, false, &h);
    if (out.discarded) {
      if (out.discardWhy.rfind("known:", 0) == 0) R.exclude(out.discardWhy.substr(6));
      return true;
    }
    if (!out.error.empty())
      return R.fail("on a circuit object placed before with its fixed cells elsewhere, then set to these contents with " + route + ": " + out.error + " " + s2.json());
  }
  // a degenerate companion: rows cut into many short segments by tap cells
  if (hw % 16 == 3) {
    CircuitSpec comb = genCombCircuit(hw);
    R.classify("shape:rows-cut-into-17+-segments");
    DetailedObserver ob6;
    ob6.checkLegality = true;
    TopLevelOutcome out = runTopLevel(comb, params, ob6, false);
    if (out.discarded) return true;
    if (!out.error.empty()) return R.fail(out.error + " " + comb.json());
  }
  // a degenerate companion: rows completely covered by an obstruction and by multi-row cells
  if (hw % 16 == 2) {
    CircuitSpec cov = genCoveredCircuit(hw);
    R.classify("shape:rows-fully-covered");
    DetailedObserver ob4;
    ob4.checkLegality = true;
    TopLevelOutcome out = runTopLevel(cov, params, ob4, false);
    if (out.discarded) {
      R.classify("shape:rows-fully-covered(legalization infeasible)");
      return true;
    }
    if (!out.error.empty()) return R.fail(out.error + " " + cov.json());
  }
  return true;
}

// (c) every sequence of feasible swap/insert operations up to depth 3
// (4 thorough) from every legal initial placement of <= 3 cells (4 thorough)
// of width 1..2 (3 thorough) in three small row configurations.
bool exhaustive(Report &R, int shard, int nshards, Tape &failTape) {
  bool th = R.thorough();
  auto cfgs = rowConfigs(th);
  int maxCells = th ? 4 : 3, maxW = th ? 3 : 2, depth = th ? 4 : 3;
  long long idx = 0;
  long long accepted = 0, refused = 0;
  for (size_t ci = 0; ci < cfgs.size(); ++ci)
    for (int n = 1; n <= maxCells; ++n) {
      long long combos = 1;
      for (int k = 0; k < n; ++k) combos *= maxW;
      for (long long wc = 0; wc < combos; ++wc) {
        std::vector<int> widths(n);
        long long v = wc;
        for (int k = 0; k < n; ++k) widths[k] = 1 + (int)(v % maxW), v /= maxW;
        if ((idx++) % nshards != shard) continue;
        Enumerator en{R, widths, depth};
        std::vector<int> px(n), py(n);
        bool ok = true;
        enumerateInitial(cfgs[ci], widths, 0, px, py, [&] {
          if (!ok) return;
          DetailedPlacement p = DetailedPlacement::fromPos(cfgs[ci].rows, widths, px, py);
          std::string se = structureError(p, widths);
          if (!se.empty()) {
            en.err = "initial placement: " + se;
            ok = false;
          } else if (!en.dfs(p, depth)) {
            ok = false;
          }
          if (!ok) failTape = encodePath((int)ci, widths, px, py, en.path, th);
        });
        accepted += en.accepted;
        refused += en.refused;
        if (!ok) {
          R.fail("row structure: " + en.err);
          return false;
        }
      }
    }
  R.exhaustiveDone = true;
  R.classify("row-structure:accepted-operations", accepted);
  R.classify("row-structure:refused-operations", refused);
  std::ostringstream m;
  m << "{\"exhaustive\":\"row data structure: 3 row configurations (one row, two rows, split row), <= " << maxCells
    << " cells of width 1.." << maxW << ", every legal initial placement, every swap/insert sequence to depth " << depth
    << "; shard " << shard << "/" << nshards << ": " << accepted << " accepted, " << refused << " refused operations\"}";
  R.sample(m.str());
  return true;
}
}  // namespace verif
