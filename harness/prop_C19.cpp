// C19 — invalid inputs are refused with a catchable error, no UB, circuit
// unmodified.  Oracle: an independent table of the documented bounds.
#include <cmath>
#include <functional>
#include <sstream>

#include "evidence.hpp"
#include "oracles.hpp"

using namespace coloquinte;

namespace verif {
const char *propId() { return "C19"; }

namespace {
// ---------------------------------------------------------------- efforts
/// Returns "" if the constructors behave as required for this effort.
std::string checkEffort(int e) {
  bool valid = e >= 1 && e <= 9;
  // the documented entry point
  try {
    ColoquinteParameters p(e);
    if (!valid) return "ColoquinteParameters(" + std::to_string(e) + ") was accepted";
    try {
      p.check();
    } catch (const std::exception &ex) {
      return "ColoquinteParameters(" + std::to_string(e) + ").check() throws: " + ex.what();
    }
  } catch (const std::exception &ex) {
    if (valid) return "ColoquinteParameters(" + std::to_string(e) + ") throws: " + ex.what();
  }
  try {
    ColoquinteParameters p(e, 42);
    if (!valid) return "ColoquinteParameters(e, seed) accepted an invalid effort";
    if (p.seed != 42) return "seed not stored";
  } catch (const std::exception &) {
    if (valid) return "ColoquinteParameters(e, seed) throws for a valid effort";
  }
  // sub-parameter constructors (all public, all bound in Python): a valid
  // effort must construct and pass check(); an invalid one must not invoke
  // undefined behaviour or abort (throwing or constructing are both fine for
  // those whose effort argument is unused).
#define SUB(T)                                                              \
  try {                                                                     \
    T q(e);                                                                 \
    if (valid) {                                                            \
      try {                                                                 \
        q.check();                                                          \
      } catch (const std::exception &ex) {                                  \
        return std::string(#T "(") + std::to_string(e) + ").check() throws: " + ex.what(); \
      }                                                                     \
    }                                                                       \
  } catch (const std::exception &ex) {                                      \
    if (valid) return std::string(#T "(") + std::to_string(e) + ") throws: " + ex.what(); \
  }
  SUB(RoughLegalizationParameters)
  SUB(PenaltyParameters)
  SUB(ContinuousModelParameters)
  SUB(GlobalPlacerParameters)
  SUB(LegalizationParameters)
  SUB(DetailedPlacerParameters)
#undef SUB
  return "";
}

// ---------------------------------------------------------------- fields
struct Field {
  const char *name;
  bool isInt;
  double lo, hi;          // valid interval; +-inf when unbounded
  bool loStrict, hiStrict;  // value exactly at the bound is invalid
  std::function<void(ColoquinteParameters &, double)> set;
  std::function<double(const ColoquinteParameters &)> get;
};
const double INF = 1e300;

std::vector<Field> fieldTable() {
  std::vector<Field> f;
#define D(nm, lo, hi, ls, hs, expr)                                         \
  f.push_back({nm, false, lo, hi, ls, hs,                                   \
               [](ColoquinteParameters &p, double v) { p.expr = v; },       \
               [](const ColoquinteParameters &p) { return (double)p.expr; }});
#define I(nm, lo, hi, expr)                                                 \
  f.push_back({nm, true, lo, hi, false, false,                              \
               [](ColoquinteParameters &p, double v) { p.expr = (int)v; },  \
               [](const ColoquinteParameters &p) { return (double)p.expr; }});
  // PenaltyParameters
  D("penalty.cutoffDistance", 1e-6, INF, false, false, global.penalty.cutoffDistance)
  D("penalty.cutoffDistanceUpdateFactor", 0.8, 1.2, false, false, global.penalty.cutoffDistanceUpdateFactor)
  D("penalty.areaExponent", 0.49, 1.01, false, false, global.penalty.areaExponent)
  D("penalty.initialValue", 0.0, INF, true, false, global.penalty.initialValue)
  D("penalty.updateFactor", 1.0, 2.0, true, true, global.penalty.updateFactor)
  D("penalty.targetBlending", 0.1, 1.1, false, false, global.penalty.targetBlending)
  // ContinuousModelParameters
  D("continuous.approximationDistance", 1e-6, 1e3, false, false, global.continuousModel.approximationDistance)
  D("continuous.approximationDistanceUpdateFactor", 0.8, 1.2, false, false, global.continuousModel.approximationDistanceUpdateFactor)
  I("continuous.maxNbConjugateGradientSteps", 1, INF, global.continuousModel.maxNbConjugateGradientSteps)
  D("continuous.conjugateGradientErrorTolerance", 1e-8, 1.0, false, false, global.continuousModel.conjugateGradientErrorTolerance)
  // RoughLegalizationParameters (reopt sizes/overlaps handled as a group below)
  I("rough.nbSteps", 0, INF, global.roughLegalization.nbSteps)
  D("rough.binSize", 1.0, 25.0, false, false, global.roughLegalization.binSize)
  D("rough.quadraticPenalty", 0.0, 1.0, false, false, global.roughLegalization.quadraticPenalty)
  D("rough.targetBlending", -0.1, 0.9, false, false, global.roughLegalization.targetBlending)
  // GlobalPlacerParameters
  I("global.nbStepsBeforeRoughLegalization", 1, INF, global.nbStepsBeforeRoughLegalization)
  D("global.gapTolerance", 0.0, 1.0, false, false, global.gapTolerance)
  D("global.distanceTolerance", 0.0, INF, false, false, global.distanceTolerance)
  D("global.exportBlending", -0.5, 1.5, false, false, global.exportBlending)
  D("global.noise", 0.0, 2.0, false, false, global.noise)
  D("global.penaltyUpdateDistance", 0.0, INF, true, false, global.penaltyUpdateDistance)
  D("global.penaltyUpdateBackoff", 1.0, INF, false, false, global.penaltyUpdateBackoff)
  // LegalizationParameters
  D("legalization.orderingWidth", -1.0, 2.0, false, false, legalization.orderingWidth)
  D("legalization.orderingY", -0.2, 0.2, false, false, legalization.orderingY)
  // DetailedPlacerParameters
  I("detailed.nbPasses", 0, INF, detailed.nbPasses)
  I("detailed.localSearchNbNeighbours", 0, INF, detailed.localSearchNbNeighbours)
  I("detailed.localSearchNbRows", 0, INF, detailed.localSearchNbRows)
  I("detailed.shiftNbRows", 1, INF, detailed.shiftNbRows)
  I("detailed.shiftMaxNbCells", 0, INF, detailed.shiftMaxNbCells)
  I("detailed.reorderingNbRows", 1, INF, detailed.reorderingNbRows)
  I("detailed.reorderingMaxNbCells", 0, INF, detailed.reorderingMaxNbCells)
#undef D
#undef I
  return f;
}

/// The table's verdict for a parameter set (independent re-statement of the
/// documented bounds, including the cross-field rules).
bool tableValid(const ColoquinteParameters &p, const std::vector<Field> &tab) {
  for (const Field &f : tab) {
    double v = f.get(p);
    if (v < f.lo || (f.loStrict && v <= f.lo)) return false;
    if (v > f.hi || (f.hiStrict && v >= f.hi)) return false;
  }
  const auto &r = p.global.roughLegalization;
  if (r.lineReoptSize < 1 || r.diagReoptSize < 1 || r.squareReoptSize < 1) return false;
  if (r.lineReoptOverlap < 1 || r.diagReoptOverlap < 1 || r.squareReoptOverlap < 1) return false;
  if (r.lineReoptSize > 64 || r.diagReoptSize > 64 || r.squareReoptSize > 8) return false;
  if (r.lineReoptSize < 2 && r.diagReoptSize < 2 && r.squareReoptSize < 2 &&
      (!r.unidimensionalTransport || r.costModel != LegalizationModel::L1))
    return false;
  if (r.lineReoptSize > 1 && r.lineReoptOverlap >= r.lineReoptSize) return false;
  if (r.diagReoptSize > 1 && r.diagReoptOverlap >= r.diagReoptSize) return false;
  if (r.squareReoptSize > 1 && r.squareReoptOverlap >= r.squareReoptSize) return false;
  if (p.global.maxNbSteps < 0 || p.global.nbInitialSteps < 0) return false;
  if (p.global.nbInitialSteps >= p.global.maxNbSteps) return false;
  if (p.legalization.costModel != LegalizationModel::L1) return false;
  return true;
}

/// Probe value for a field: k = 0 below lower, 1 above lower, 2 below upper,
/// 3 above upper (never exactly on a bound for real-valued fields).
bool probeValue(const Field &f, int k, double &v) {
  if (k >= 4) {
    // far from the bounds: zero, negative, huge
    static const double far[] = {0.0, -1.0, 1e9, -1e9};
    v = far[k - 4];
    if (f.isInt) v = (double)(long long)v;
    return true;
  }
  double b = k < 2 ? f.lo : f.hi;
  if (std::fabs(b) >= INF) return false;
  bool above = (k == 1 || k == 3);
  if (f.isInt) {
    v = k == 0 ? b - 1 : k == 1 ? b : k == 2 ? b : b + 1;
    return true;
  }
  double m = std::fabs(b) < 1e-3 && b != 0.0 ? std::fabs(b) * 0.5
                                             : 1e-3 * std::max(1.0, std::fabs(b));
  v = above ? b + m : b - m;
  return true;
}

Circuit smallCircuit(Tape &t) {
  int n = t.choose(2, 6);
  Circuit c(n);
  std::vector<int> w(n), h(n), x(n), y(n);
  std::vector<bool> fx(n);
  for (int i = 0; i < n; ++i) {
    w[i] = t.choose(1, 4);
    h[i] = 2;
    x[i] = t.choose(-5, 30);
    y[i] = t.choose(-5, 12);
    fx[i] = t.flip(1, 5);
  }
  fx[0] = false;
  c.setCellWidth(w);
  c.setCellHeight(h);
  c.setCellX(x);
  c.setCellY(y);
  c.setCellIsFixed(fx);
  c.setupRows(Rectangle(0, 24, 0, 8), 2);
  int nn = t.choose(0, 4);
  for (int k = 0; k < nn; ++k) {
    int deg = t.choose(1, 3);
    std::vector<int> cs, xo, yo;
    for (int q = 0; q < deg; ++q) {
      cs.push_back(t.choose(0, n - 1));
      xo.push_back(t.choose(0, 2));
      yo.push_back(t.choose(0, 2));
    }
    c.addNet(cs, xo, yo);
  }
  return c;
}

std::string stageRefuses(Circuit &c, const ColoquinteParameters &p, int stage) {
  Frame before = snap(c);
  bool inUseBefore = c.isInUse_;
  bool threw = false;
  int callbacks = 0;
  PlacementCallback cb = [&](PlacementStep) { ++callbacks; };
  try {
    if (stage == 0) c.placeGlobal(p, cb);
    if (stage == 1) c.legalize(p, cb);
    if (stage == 2) c.placeDetailed(p, cb);
  } catch (const std::exception &) {
    threw = true;
  }
  static const char *nm[] = {"placeGlobal", "legalize", "placeDetailed"};
  if (!threw) return std::string(nm[stage]) + " accepted a parameter set the check rejects";
  if (callbacks) return std::string(nm[stage]) + " started placement work before refusing the parameters";
  std::string d = diffFrame(before, snap(c), false, true);
  if (!d.empty()) return std::string(nm[stage]) + " with rejected parameters modified the circuit: " + d;
  (void)inUseBefore;
  return "";
}

// ---------------------------------------------------------------- setters
std::string checkSetterLengths(Circuit &c, int len) {
  int n = c.nbCells();
  if (len == n) return "";
  Frame before = snap(c);
  auto expectThrow = [&](const char *nm, std::function<void()> f) -> std::string {
    bool threw = false;
    try {
      f();
    } catch (const std::exception &) {
      threw = true;
    }
    if (!threw) return std::string(nm) + " accepted a vector of length " + std::to_string(len) + " for " + std::to_string(n) + " cells";
    std::string d = diffFrame(before, snap(c), false, true);
    if (!d.empty()) return std::string(nm) + " threw but modified the circuit: " + d;
    return "";
  };
  std::string r;
  if (!(r = expectThrow("setCellX", [&] { c.setCellX(std::vector<int>(len, 1)); })).empty()) return r;
  if (!(r = expectThrow("setCellY", [&] { c.setCellY(std::vector<int>(len, 1)); })).empty()) return r;
  if (!(r = expectThrow("setCellWidth", [&] { c.setCellWidth(std::vector<int>(len, 1)); })).empty()) return r;
  if (!(r = expectThrow("setCellHeight", [&] { c.setCellHeight(std::vector<int>(len, 1)); })).empty()) return r;
  if (!(r = expectThrow("setCellIsFixed", [&] { c.setCellIsFixed(std::vector<bool>(len, true)); })).empty()) return r;
  if (!(r = expectThrow("setCellIsObstruction", [&] { c.setCellIsObstruction(std::vector<bool>(len, false)); })).empty()) return r;
  if (!(r = expectThrow("setCellOrientation", [&] { c.setCellOrientation(std::vector<CellOrientation>(len, CellOrientation::S)); })).empty()) return r;
  if (!(r = expectThrow("setCellRowPolarity", [&] { c.setCellRowPolarity(std::vector<CellRowPolarity>(len, CellRowPolarity::SAME)); })).empty()) return r;
  if (!(r = expectThrow("setSolution", [&] { c.setSolution(PlacementSolution(len)); })).empty()) return r;
  if (!(r = expectThrow("expandCellsByFactor", [&] { c.expandCellsByFactor(std::vector<float>(len, 1.5f)); })).empty()) return r;
  if (len != c.nbNets())
    if (!(r = expectThrow("setNetWeights", [&] { c.setNetWeights(std::vector<float>(len, 2.0f)); })).empty()) return r;
  return "";
}

// ---------------------------------------------------------------- nets
/// kind: 0 xOffsets shorter, 1 yOffsets longer, 2 cell == n, 3 cell == -1,
/// 4 cell far out of range (value given)
std::string checkBadAddNet(Circuit &c, int kind, int deg, int pos, int badValue) {
  int n = c.nbCells();
  std::vector<int> cs(deg), xo(deg, 1), yo(deg, 1);
  for (int i = 0; i < deg; ++i) cs[i] = i % n;
  switch (kind) {
    case 0: xo.pop_back(); break;
    case 1: yo.push_back(0); break;
    case 2: cs[pos % deg] = n; break;
    case 3: cs[pos % deg] = -1; break;
    default: cs[pos % deg] = badValue; break;
  }
  Frame before = snap(c);
  bool threw = false;
  try {
    c.addNet(cs, xo, yo);
  } catch (const std::exception &) {
    threw = true;
  }
  if (threw) {
    std::string d = diffFrame(before, snap(c), false, true);
    if (!d.empty()) return "addNet threw but modified the circuit: " + d;
    return "";
  }
  // accepted: then the next check()/placement call must refuse before touching the pin
  bool later = false;
  try {
    c.check();
    c.legalize(ColoquinteParameters(1));
  } catch (const std::exception &) {
    later = true;
  }
  if (!later) return "addNet accepted an invalid net (kind " + std::to_string(kind) + ") and nothing refused it later";
  return "";
}

std::string checkBadSetNets(Circuit &c, int kind, int pos, int badValue) {
  int n = c.nbCells();
  // a valid base: 3 nets of degrees 2,0,3
  std::vector<int> lim = {0, 2, 2, 5};
  std::vector<int> cs = {0, 1 % n, 0, 1 % n, (n - 1)};
  std::vector<int> xo(5, 1), yo(5, 0);
  std::vector<float> wt = {1.f, 2.f, 0.5f};
  switch (kind) {
    case 0: lim.back() = 4; break;                 // limits.back() != pins
    case 1: xo.pop_back(); break;
    case 2: yo.push_back(1); break;
    case 3: wt.pop_back(); break;                  // weights of wrong length
    case 4: lim.front() = 1; break;
    case 5: lim.clear(); break;
    case 6: cs[pos % 5] = n; break;
    case 7: cs[pos % 5] = -1; break;
    case 8: cs[pos % 5] = badValue; break;
    default: lim = {0, 4, 2, 5}; break;            // unsorted limits
  }
  Frame before = snap(c);
  bool threw = false;
  try {
    c.setNets(lim, cs, xo, yo, wt);
  } catch (const std::exception &) {
    threw = true;
  }
  if (threw) {
    std::string d = diffFrame(before, snap(c), false, true);
    if (!d.empty()) return "setNets threw but modified the circuit: " + d;
    return "";
  }
  bool later = false;
  try {
    c.check();
    c.legalize(ColoquinteParameters(1));
  } catch (const std::exception &) {
    later = true;
  }
  if (!later) return "setNets accepted invalid nets (kind " + std::to_string(kind) + ") and nothing refused them later";
  return "";
}
}  // namespace

Circuit plainCircuit(int n) {
  Circuit c(n);
  c.setCellWidth(std::vector<int>(n, 2));
  c.setCellHeight(std::vector<int>(n, 2));
  c.setupRows(Rectangle(0, 20, 0, 4), 2);
  return c;
}

/// One enumerated field probe.  nontrivial: the set is rejected.
std::string oneFieldProbe(const std::vector<Field> &tab, int e, int fi, int k, bool &applies, bool &rejected) {
  applies = rejected = false;
  const Field &f = tab[fi];
  double v;
  if (!probeValue(f, k, v)) return "";
  applies = true;
  ColoquinteParameters p(e);
  f.set(p, v);
  bool expect = tableValid(p, tab);
  bool threw = false;
  try {
    p.check();
  } catch (const std::exception &) {
    threw = true;
  }
  std::ostringstream d;
  d << f.name << "=" << v << " (effort " << e << ")";
  if (expect != !threw)
    return std::string(expect ? "check() rejects " : "check() accepts ") + d.str() +
           (expect ? " inside" : " outside") + " the documented bounds";
  if (!expect) {
    rejected = true;
    for (int stage = 0; stage < 3; ++stage) {
      Tape t0;
      Circuit c = smallCircuit(t0);
      std::string s = stageRefuses(c, p, stage);
      if (!s.empty()) return s + " " + d.str();
    }
  }
  return "";
}

std::string oneSetterCase(int n, int len) {
  Circuit c = plainCircuit(n);
  c.addNet({0, n - 1}, {0, 1}, {1, 0});
  return checkSetterLengths(c, len);
}

std::string oneNetCase(int n, int kind, int pos, int bad) {
  Circuit c = plainCircuit(n);
  std::string r = checkBadSetNets(c, kind, pos, bad);
  if (r.empty() && kind <= 4) r = checkBadAddNet(c, kind, 1 + pos, pos, bad);
  if (!r.empty()) r += " (cells " + std::to_string(n) + ", bad value " + std::to_string(bad) + ")";
  return r;
}

constexpr uint32_t kExplicit = 0xE7E7E7E7u;

bool prop(Tape &t, Report &R) {
  static const std::vector<Field> tab = fieldTable();
  if (!t.w.empty() && t.w[0] == kExplicit) {
    // explicit encodings written by the exhaustive enumerator
    t.next();
    int kind = (int)(t.next() % 4);
    std::string r;
    if (kind == 0) {
      r = checkEffort((int)(int32_t)t.next());
    } else if (kind == 1) {
      int e = 1 + (int)(t.next() % 9), fi = (int)(t.next() % tab.size()), k = (int)(t.next() % 4);
      bool a, rej;
      r = oneFieldProbe(tab, e, fi, k, a, rej);
    } else if (kind == 2) {
      int n = 1 + (int)(t.next() % 16), len = (int)(t.next() % 64);
      if (len != n) r = oneSetterCase(n, len);
    } else {
      int n = 1 + (int)(t.next() % 16), kd = (int)(t.next() % 10), pos = (int)(t.next() % 8);
      int bad = (int)(int32_t)t.next();
      if (bad >= 0 && bad < n) bad = n;
      r = oneNetCase(n, kd, pos, bad);
    }
    if (!r.empty()) return R.fail(r);
    return true;
  }
  int mode = t.weighted({2, 5, 2, 3});
  if (mode == 0) {
    R.classify("mode:effort");
    int e = (int)(int32_t)t.next();
    if (t.flip(1, 3)) e = t.choose(-16, 32);
    std::string r = checkEffort(e);
    if (!r.empty()) return R.fail("effort: " + r);
    if (e < 1 || e > 9) R.nontrivial(Hasher().add(0).add(e).h, [&] { return "{\"effort\":" + std::to_string(e) + "}"; });
    return true;
  }
  if (mode == 1) {
    R.classify("mode:parameters");
    int e = t.choose(1, 9);
    ColoquinteParameters p(e);
    int nviol = 0;
    std::ostringstream desc;
    desc << "{\"effort\":" << e;
    int k = t.weighted({2, 4, 2, 1});  // number of fields touched: 0..3
    Hasher h;
    h.add(1).add(e);
    for (int q = 0; q < k; ++q) {
      const Field &f = tab[t.choose(0, (int)tab.size() - 1)];
      int probe = t.choose(0, 7);
      double v;
      if (!probeValue(f, probe, v)) continue;
      f.set(p, v);
      desc << ",\"" << f.name << "\":" << v;
      h.add((long long)(&f - &tab[0])).add(probe);
    }
    // group / cross-field knobs
    auto &r = p.global.roughLegalization;
    if (t.flip(1, 3)) {
      r.lineReoptSize = t.choose(0, 66);
      r.lineReoptOverlap = t.choose(0, 4);
      desc << ",\"line\":[" << r.lineReoptSize << "," << r.lineReoptOverlap << "]";
      h.add(r.lineReoptSize).add(r.lineReoptOverlap);
    }
    if (t.flip(1, 4)) {
      r.diagReoptSize = t.choose(0, 66);
      r.diagReoptOverlap = t.choose(0, 4);
      h.add(r.diagReoptSize).add(r.diagReoptOverlap);
    }
    if (t.flip(1, 4)) {
      r.squareReoptSize = t.choose(0, 10);
      r.squareReoptOverlap = t.choose(0, 4);
      h.add(r.squareReoptSize).add(r.squareReoptOverlap);
    }
    if (t.flip(1, 5)) r.unidimensionalTransport = t.flip(), h.add(r.unidimensionalTransport);
    if (t.flip(1, 5)) r.costModel = (LegalizationModel)t.choose(0, 5), h.add((int)r.costModel);
    if (t.flip(1, 6)) p.legalization.costModel = (LegalizationModel)t.choose(0, 5), h.add((int)p.legalization.costModel);
    if (t.flip(1, 4)) {
      p.global.maxNbSteps = t.choose(-1, 6);
      p.global.nbInitialSteps = t.choose(-1, 6);
      h.add(p.global.maxNbSteps).add(p.global.nbInitialSteps);
    }
    desc << "}";
    bool expect = tableValid(p, tab);
    bool threw = false;
    try {
      p.check();
    } catch (const std::exception &) {
      threw = true;
    }
    (void)nviol;
    if (expect && threw) return R.fail("check() rejects a parameter set inside the documented bounds " + desc.str());
    if (!expect && !threw) return R.fail("check() accepts a parameter set outside the documented bounds " + desc.str());
    R.classify(expect ? "params:valid" : "params:rejected");
    if (!expect) {
      Circuit c = smallCircuit(t);
      int stage = t.choose(0, 2);
      std::string s = stageRefuses(c, p, stage);
      if (!s.empty()) return R.fail(s + " " + desc.str());
      R.nontrivial(h.h, [&] { return desc.str(); });
    }
    return true;
  }
  if (mode == 2) {
    R.classify("mode:setter-lengths");
    Circuit c = smallCircuit(t);
    int n = c.nbCells();
    int cls = t.choose(0, 4);
    int len = cls == 0 ? 0 : cls == 1 ? n - 1 : cls == 2 ? n + 1 : cls == 3 ? 2 * n : t.choose(0, 40);
    if (len == n) return true;
    std::string r = checkSetterLengths(c, len);
    if (!r.empty()) return R.fail(r);
    R.nontrivial(Hasher().add(2).add(n).add(len).h, [&] {
      return "{\"cells\":" + std::to_string(n) + ",\"vector_length\":" + std::to_string(len) + "}";
    });
    return true;
  }
  R.classify("mode:nets");
  Circuit c = smallCircuit(t);
  bool viaSet = t.flip();
  int kind = viaSet ? t.choose(0, 9) : t.choose(0, 4);
  int pos = t.choose(0, 7);
  int bad = (int)(int32_t)t.next();
  if (bad >= 0 && bad < c.nbCells()) bad = c.nbCells() + bad;
  int deg = t.choose(1, 5);
  std::string r = viaSet ? checkBadSetNets(c, kind, pos, bad) : checkBadAddNet(c, kind, deg, pos, bad);
  if (!r.empty()) return R.fail(r);
  // the circuit must still be usable
  try {
    (void)c.hpwl();
    c.check();
  } catch (const std::exception &e) {
    return R.fail(std::string("circuit unusable after a refused net: ") + e.what());
  }
  R.nontrivial(Hasher().add(3).add(viaSet).add(kind).add(pos).add(bad).add(deg).add(c.nbCells()).h, [&] {
    std::ostringstream s;
    s << "{\"api\":\"" << (viaSet ? "setNets" : "addNet") << "\",\"kind\":" << kind
      << ",\"bad_cell_value\":" << bad << ",\"cells\":" << c.nbCells() << "}";
    return s.str();
  });
  return true;
}

// Exhaustive: efforts -16..32 (all constructors); every table field x
// {below lower, above lower, below upper, above upper} x efforts {1,5,9};
// every setter x lengths {0,n-1,n+1,2n} x n in 1..6; every bad-net kind.
bool exhaustive(Report &R, int shard, int nshards, Tape &failTape) {
  const std::vector<Field> tab = fieldTable();
  long long idx = 0;
  auto mine = [&]() { return (idx++) % nshards == shard; };
  for (int e = -16; e <= 32; ++e) {
    if (!mine()) continue;
    ++R.exhaustiveStates;
    std::string r = checkEffort(e);
    if (!r.empty()) {
      R.fail("effort: " + r);
      failTape.w = {kExplicit, 0u, (uint32_t)e};
      return false;
    }
    if (e < 1 || e > 9) ++R.nontrivialCount;
  }
  for (int e : {1, 5, 9}) {
    for (size_t fi = 0; fi < tab.size(); ++fi)
      for (int k = 0; k < 8; ++k) {
        if (!mine()) continue;
        bool applies, rejected;
        std::string r = oneFieldProbe(tab, e, (int)fi, k, applies, rejected);
        if (!applies) continue;
        ++R.exhaustiveStates;
        if (!r.empty()) {
          R.fail(r);
          failTape.w = {kExplicit, 1u, (uint32_t)(e - 1), (uint32_t)fi, (uint32_t)k};
          return false;
        }
        if (rejected) ++R.nontrivialCount;
      }
  }
  for (int n = 1; n <= 6; ++n) {
    for (int len : {0, n - 1, n + 1, 2 * n}) {
      if (!mine()) continue;
      if (len == n) continue;
      ++R.exhaustiveStates;
      std::string r = oneSetterCase(n, len);
      if (!r.empty()) {
        R.fail(r);
        failTape.w = {kExplicit, 2u, (uint32_t)(n - 1), (uint32_t)len};
        return false;
      }
      ++R.nontrivialCount;
    }
    for (int kind = 0; kind <= 9; ++kind)
      for (int pos = 0; pos < 5; ++pos) {
        if (!mine()) continue;
        for (int bad : {n, n + 1, -1, -2, INT_MAX, INT_MIN}) {
          ++R.exhaustiveStates;
          std::string r = oneNetCase(n, kind, pos, bad);
          if (!r.empty()) {
            R.fail(r);
            failTape.w = {kExplicit, 3u, (uint32_t)(n - 1), (uint32_t)kind, (uint32_t)pos, (uint32_t)bad};
            return false;
          }
          ++R.nontrivialCount;
        }
      }
  }
  R.exhaustiveDone = true;
  R.sample("{\"exhaustive\":\"efforts -16..32 through all 7 constructors; each of " + std::to_string(tab.size()) +
           " bounded fields x 8 probes (four at the bounds, four far from them: 0, -1, 1e9, -1e9) x efforts {1,5,9}, each rejected set through the 3 stages; "
           "11 setters x wrong lengths {0,n-1,n+1,2n} x n=1..6; addNet/setNets x 10 defect kinds x positions x "
           "out-of-range values {n,n+1,-1,-2,INT_MAX,INT_MIN}\"}");
  return true;
}
}  // namespace verif
