// C05 — detailed placement never worsens the half-perimeter wirelength.
#include "detailed_common.hpp"

namespace verif {
const char *propId() { return "C05"; }

bool prop(Tape &t, Report &R) {
  if (!t.w.empty() && t.w[0] == kExplicitSpec) {
    // literal circuit + nets, default parameters of effort 3, top-level layer
    CircuitSpec s = decodeSpec(t);
    decodeNets(t, s);
    if (s.nbMovable() == 0 || !specInDomain(s)) return true;  // literal specs outside the quantified domain are not judged
    ColoquinteParameters params(3);
    DetailedObserver ob;
    ob.checkWirelength = true;
    TopLevelOutcome out = runTopLevel(s, params, ob, false);
    if (out.discarded) return true;
    if (!out.error.empty()) return R.fail(out.error + " " + s.json());
    return true;
  }
  HistoryScope hist(t, R);
  GenOpts o;
  o.polarisedPct = 25;
  if (R.thorough()) o.maxCells = 50, o.maxLevels = 12;
  CircuitSpec s = genCircuit(t, o);
  ParamOpts po;
  ColoquinteParameters params = genParams(t, po, &s.labels);
  if (t.flip(1, 3)) {
    params.detailed.reorderingNbRows = t.choose(1, 3);
    params.detailed.reorderingMaxNbCells = t.choose(2, 5);
    s.labels.insert("params:reordering");
  }
  for (auto &l : s.labels) R.classify(l);
  if (s.nbMovable() == 0) {
    R.discard("no movable cell");
    return true;
  }
  bool deg3 = false;
  for (auto &n : s.nets) deg3 |= n.cells.size() >= 3;
  DetailedObserver ob;
  ob.checkWirelength = true;
  // Known finding: when a SAME/OPPOSITE cell changes row its orientation (and
  // so its pin offsets) changes, which the incremental model does not see.
  bool excl = R.known("c05-orientation-flip");
  bool direct = t.flip(1, 3);
  // high-fanout nets (clock / reset like): every cell several times, > 100 pins.
  // Decided last so that tapes saved before this class existed keep their meaning.
  if (t.flip(1, 5)) {
    int n = s.cells.size();
    int nbig = t.choose(1, 2);
    for (int b = 0; b < nbig; ++b) {
      NetSpec net;
      int per = 101 / std::max(1, n) + 1 + t.choose(0, 2);
      for (int c = 0; c < n; ++c)
        for (int k = 0; k < per; ++k) {
          net.cells.push_back(c);
          net.xo.push_back((int)t.range(0, s.cells[c].w));
          net.yo.push_back((int)t.range(0, s.cells[c].h));
        }
      net.weight = 1.0f;
      s.nets.push_back(net);
    }
    s.labels.insert("nets:high-fanout(>100 pins)");
    R.classify("nets:high-fanout(>100 pins)");
  }
  // net weights are not validated and detailed placement optimises the plain (unweighted)
  // half-perimeter: nets of weight zero (or below) are nets like any other here
  if (t.flip(1, 5)) {
    bool any = false;
    for (auto &n : s.nets)
      if (t.flip(1, 3)) n.weight = t.flip(1, 4) ? -1.0f : 0.0f, any = true;
    if (any) R.classify("nets:zero-or-negative-weight");
  }
  if (!direct) {
    R.classify("layer:a-top-level");
    TopLevelOutcome out = runTopLevel(s, params, ob, excl);
    if (out.discarded) {
      if (out.discardWhy == "known:c05-orientation-flip") R.exclude("c05-orientation-flip");
      else R.discard(out.discardWhy);
      return true;
    }
    if (!out.error.empty()) return R.fail(out.error + " " + s.json());
    if (out.orientationChanged) R.classify("orientation-changed-during-run");
    if (out.hpwlDecreased && deg3) R.nontrivial(s.hash(), [&] { return s.json(24); });
  } else {
    R.classify("layer:b-direct-drive");
    std::string hist;
    DirectOutcome out = runDirect(s, params, t, ob, excl, &hist);
    if (out.discarded) {
      if (out.discardWhy == "known:c05-orientation-flip") R.exclude("c05-orientation-flip");
      else R.discard(out.discardWhy);
      return true;
    }
    if (!out.error.empty()) return R.fail(out.error + " " + s.json());
    if (out.valueChanged && deg3)
      R.nontrivial(s.hash() ^ Hasher().add(out.passes).h, [&] {
        return "{\"history\":\"" + hist + "\",\"circuit\":" + s.json(16) + "}";
      });
  }
  // occasionally also a large companion instance through the top-level call
  // (decided at the very end of the tape so that older tapes keep their meaning)
  uint32_t tail = t.next();
  if (tail % 32 == 1) {
    CircuitSpec big = genLargeCircuit(tail, o, 150);
    if (big.nbMovable() > 0) {
      R.classify(big.nbMovable() >= 100 ? "large:100+cells" : "large:<100cells");
      DetailedObserver ob2;
      ob2.checkWirelength = true;
      TopLevelOutcome out = runTopLevel(big, params, ob2, excl);
      if (out.discarded) {
        if (out.discardWhy.rfind("known:", 0) == 0) R.exclude(out.discardWhy.substr(6));
        return true;
      }
      if (!out.error.empty()) return R.fail(out.error + " " + big.json());
    }
  }
  // the same case presented differently (decided after everything else): rows handed over in
  // another order, on a Circuit object that was placed before with its fixed cells elsewhere
  // and then brought to these contents through its setters
  uint32_t hw = t.next();
  if (hw % 3 == 1) {
    CircuitSpec s2 = s;
    R.classify(permuteRows(s2, hw >> 4));
    std::string route;
    Circuit h = buildWithHistory(s2, hw, [&](Circuit &c) { c.placeDetailed(params); }, &route);
    R.classify("history:placeDetailed," + route + ",placeDetailed");
    DetailedObserver ob3;
    ob3.checkWirelength = true;
    TopLevelOutcome out = runTopLevel(s2, params, ob3, excl, &h);
    if (out.discarded) {
      if (out.discardWhy.rfind("known:", 0) == 0) R.exclude(out.discardWhy.substr(6));
      return true;
    }
    if (!out.error.empty())
      return R.fail("on a circuit object placed before with its fixed cells elsewhere, then set to these contents with " + route + ": " + out.error + " " + s2.json());
  }
  // the same circuit far from the origin (a die of a few centimetres in nanometres): coordinates
  // beyond 2^24, where single precision no longer represents every integer
  if (hw % 8 == 2) {
    CircuitSpec far = s;
    int dx = ((hw >> 4) & 1) ? (1 << 25) + (int)((hw >> 8) % 1000) : 0;
    int dy = ((hw >> 5) & 1) || dx == 0 ? (1 << 25) + (int)((hw >> 18) % 1000) : 0;
    for (auto &r : far.rows) r.minX += dx, r.maxX += dx, r.minY += dy, r.maxY += dy;
    for (auto &c : far.cells) c.x += dx, c.y += dy;
    R.classify("offset:beyond-2^24");
    DetailedObserver ob5;
    ob5.checkWirelength = true;
    TopLevelOutcome out = runTopLevel(far, params, ob5, excl);
    if (out.discarded) {
      if (out.discardWhy.rfind("known:", 0) == 0) R.exclude(out.discardWhy.substr(6));
      return true;
    }
    if (!out.error.empty()) return R.fail(out.error + " [circuit translated by (" + std::to_string(dx) + "," + std::to_string(dy) + ")] " + s.json());
  }
  return true;
}

bool exhaustive(Report &, int, int, Tape &) { return true; }
}  // namespace verif
