// C11 — legalization does not move an already legal single-row placement.
#include "gen_circuit.hpp"

using namespace coloquinte;

namespace verif {
const char *propId() { return "C11"; }

bool prop(Tape &t, Report &R) {
  GenOpts o;
  o.multiRow = false;
  o.maxCoord = (1LL << 20) - 1;
  o.overfull = false;
  if (R.thorough()) o.maxCells = 60, o.maxLevels = 16;
  CircuitSpec s = genCircuit(t, o);
  bool constructed = t.flip();
  ParamOpts po;
  ColoquinteParameters params = genParams(t, po, &s.labels);
  // Known finding: re-legalization moves cells when the ordering key is not
  // monotone in the left edge, i.e. orderingWidth outside [0,1] (see DESIGN.md).
  bool wOut = params.legalization.orderingWidth < 0.0 || params.legalization.orderingWidth > 1.0;
  if (wOut && R.known("c11-ordering-width-outside-0-1")) {
    R.exclude("c11-ordering-width-outside-0-1");
    params.legalization.orderingWidth = t.real(0.0, 1.0);
    wOut = false;
  }
  if (constructed) {
    if (!packLegal(s, t) || s.nbMovable() == 0) {
      R.discard("no free space");
      return true;
    }
  }
  for (auto &l : s.labels) R.classify(l);
  if (s.nbMovable() == 0) {
    R.discard("no movable cell");
    return true;
  }
  Circuit c = s.build();
  if (!constructed) {
    try {
      c.legalize(params);
    } catch (const std::exception &) {
      R.discard("first legalization infeasible");
      return true;
    }
  }
  std::string le = legalityError(c);
  if (!le.empty()) {
    if (constructed) return R.fail("harness: constructed placement is not legal: " + le);
    R.discard("first legalization returned an illegal placement (C01)");
    return true;
  }
  Frame before = snap(c);
  // the second call may use different (accepted) ordering parameters
  ColoquinteParameters p2 = params;
  if (t.flip(1, 3)) {
    p2.legalization.orderingY = t.real(-0.2, 0.2);
    p2.legalization.orderingHeight = t.real(-4.0, 4.0);
    if (!(wOut == false && R.known("c11-ordering-width-outside-0-1")))
      p2.legalization.orderingWidth = wOut ? t.real(-1.0, 2.0) : t.real(0.0, 1.0);
    else
      p2.legalization.orderingWidth = t.real(0.0, 1.0);
  }
  try {
    c.legalize(p2);
  } catch (const std::exception &e) {
    return R.fail(std::string("legalizing a legal placement failed: ") + e.what() + " " + s.json());
  }
  std::string d = diffFrame(before, snap(c), false, true);
  if (!d.empty()) {
    std::ostringstream m;
    m << "re-legalization moved a cell: " << d << " orderingWidth=" << p2.legalization.orderingWidth
      << (p2.legalization.orderingWidth < 0.0 || p2.legalization.orderingWidth > 1.0 ? " (outside [0,1])" : " (inside [0,1])")
      << " orderingY=" << p2.legalization.orderingY << " orderingHeight=" << p2.legalization.orderingHeight << " " << s.json();
    return R.fail(m.str());
  }
  // non-trivial: >= 3 cells, two touching in a row or a cell adjacent to an obstruction
  int n = c.nbCells(), movable = 0;
  bool touching = false;
  auto obs = fixedObstacles(c);
  for (int i = 0; i < n; ++i) {
    if (c.isFixed(i)) continue;
    ++movable;
    Rectangle a = c.placement(i);
    for (int j = 0; j < n; ++j) {
      if (j == i || c.isFixed(j)) continue;
      Rectangle b = c.placement(j);
      if (a.minY == b.minY && a.maxX == b.minX) touching = true;
    }
    for (auto &ob : obs)
      if (ob.minY < a.maxY && a.minY < ob.maxY && (ob.maxX == a.minX || ob.minX == a.maxX)) touching = true;
  }
  R.classify(constructed ? "legal:constructed" : "legal:from-legalize");
  if (movable >= 3 && touching) R.nontrivial(s.hash() ^ (constructed ? 1 : 0), [&] { return s.json(24); });
  return true;
}

bool exhaustive(Report &, int, int, Tape &) { return true; }
}  // namespace verif
