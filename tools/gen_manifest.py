#!/usr/bin/env python3
"""Regenerate MANIFEST.json from the property table in check.py and the texts below."""
import importlib.util
import json
import os
import subprocess

VERIF = os.path.dirname(os.path.dirname(os.path.abspath(__file__)))
spec = importlib.util.spec_from_file_location("check", os.path.join(VERIF, "check.py"))
check = importlib.util.module_from_spec(spec)
spec.loader.exec_module(check)

ALL = ["C%02d" % i for i in range(1, 21)]

PBT = "property-based testing over constructed circuits (rapidcheck choice tapes, shrinking; libFuzzer in the thorough tier where configured)"
META = {
    "C01": dict(
        technique=PBT + "; oracle: independent geometric legality predicate + unchanged-on-throw + must-return on the trivially feasible class",
        text="Generated circuits over the whole C01 domain (split rows, gaps, obstructions of every kind, multi-row cells and macros, all eight orientations, polarities, sparse to over-full, three coordinate scales) are legalized with generated ordering parameters; a returned placement must satisfy a legality predicate built on an independent free-space sweep, a throw must leave x/y/orientation bit-identical, and the trivially feasible class must return. A sample of the domain, with the class histogram in the evidence.",
        note="Trusted: the legality predicate of the harness (oracles.hpp), sanitizer runtimes and the library's own assertions (enabled)."),
    "C02": dict(
        technique=PBT + " + exhaustive enumeration of swap/insert histories on the row data structure; oracle: legality predicate at every callback, frozen multi-row cells, canX/throws contract, independent structural predicate",
        text="Three layers: placeDetailed with an observing callback on circuits legalization accepts (must return; every exposed state legal; multi-row cells frozen); the optimiser driven directly by generated pass histories with arbitrary windows; and a complete enumeration of all feasible swap/insert sequences up to depth 3 (4) from all small initial placements, where canSwap/canInsert must predict exactly whether the operation succeeds. Complete for layer (c), a sample for (a) and (b).",
        note="Trusted: harness predicates, sanitizer runtimes. Pass arguments respect the guards of their only caller (shift window >= 2, reordering rows >= 1)."),
    "C03": dict(
        technique=PBT + " with fault injection through throwing callbacks; oracle: equality of a snapshot of every public getter",
        text="Five flows (each stage, the full flow, legalize twice) with no / observing / throwing callbacks and occasionally rejected parameters; before/after and inside every callback everything except x/y/orientation of movable cells must be bit-identical, also when the call ends in an exception; global placement must leave all orientations alone.",
        note="Trusted: the frame snapshot covers every public getter and the public data members. The class of known finding c06-unanchored-far-from-origin is excluded from flows that run global placement."),
    "C04": dict(
        technique=PBT + " + exhaustive table check; oracle: the harness's own polarity table applied to the row under each cell",
        text="Circuits with 60% polarised cells (every polarity on odd and even row counts, three row-orientation patterns); after legalize, inside every Detailed callback and after placeDetailed every polarised cell must have exactly the prescribed orientation on a row its polarity allows, and cells without polarity keep their orientation. The two orientation tables are enumerated completely.",
        note="Trusted: the harness table transcribed from the documentation in coloquinte.hpp."),
    "C05": dict(
        technique=PBT + "; oracle: monotonicity of Circuit::hpwl() over exposed states, value()==hpwl() differential",
        text="placeDetailed with an observing callback: hpwl() at successive Detailed callbacks and at return never increases and ends at or below the legalized value; direct drive of 1..12 optimiser passes: value() never increases and equals hpwl() of the exported placement. Runs in which a polarised cell changes orientation are a recorded known finding and are excluded by construction (counted).",
        note="Trusted: Circuit::hpwl() as the measure (C09 pins it to geometry). Known finding c05-orientation-flip excluded and counted."),
    "C06": dict(
        technique=PBT + "; oracle: centre-in-bounding-box at every UpperBound callback, range check of every exposed coordinate (+ float-cast-overflow sanitizer), LB/UB blend relation with a derived rounding tolerance",
        text="Global placement on generated circuits of the C06 domain with generated global parameters (all net models, cost models, reopt windows, blendings, seeds, noise); an observing callback checks every upper-bound placement, every exposed coordinate, and the final blend of the last lower and upper bound. The class 'unanchored net component and area far from the origin' is a recorded known finding, excluded by construction and counted.",
        note="Trusted: tolerance derivation in DESIGN.md (integer rounding of float blends). Known finding c06-unanchored-far-from-origin excluded and counted."),
    "C10": dict(
        technique="fault enumeration: property-based generation of instances (rapidcheck) x exhaustive injection of a throwing callback at every callback index; oracle: refusal + unchanged frame inside callbacks, setters accepted and differential re-legalization afterwards",
        text="For each generated instance the reference run counts the K callback invocations and checks that every structural setter is refused without effect at each of them; then every one of the K fault points is exercised on a fresh copy (throwing callback), and the circuit must be usable and consistent afterwards; failed legalizations and rejected parameters must leave the placement bit-identical. Exhaustive over fault points per instance, a sample over instances.",
        note="Trusted: the harness-private exception type cannot be caught by the library's std::exception handlers. Instances are small (<= 12 cells, <= 12 global steps) so that K stays enumerable."),
    "C11": dict(
        technique=PBT + "; oracle: idempotence (legalize . legalize == legalize) and stability of constructed legal placements",
        text="Row-high designs: a legal placement obtained from legalize or constructed by packing (touching cells likely) is legalized again, possibly with other accepted ordering parameters, and must not move. orderingWidth outside [0,1] is a recorded known finding, excluded by construction and counted.",
        note="Trusted: harness legality predicate for the constructed starts. Known finding c11-ordering-width-outside-0-1 excluded and counted."),
    "C08": dict(
        technique=PBT + " with harness-owned schedules through the COLOQUINTE_VERIF hook and a ThreadSanitizer build; oracle: bitwise equality of Circuit::solution() across repeated / copied / reordered / callback / forced-completion-order / single-CPU runs",
        text="For every generated circuit and parameter set the reference result is compared bit for bit with a repeated run, a run on a copy, a run with an observing callback, a run after an unrelated placement in the same process, runs in which the hook forces the x solve or the y solve of every lower-bound step to finish first (or adds tape-chosen delays), and a run pinned to one CPU. The same property compiled with -fsanitize=thread runs those schedules under ThreadSanitizer; any report is a violation. The evidence counts the hooked solve pairs and how many honoured the requested order.",
        note="Trusted: ThreadSanitizer on the executions actually produced; the hook (add-only, guarded) delays but never kills threads. Interleavings that need a pre-emption at one instruction inside Eigen's CG loop are out of reach, as DESIGN.md states."),
    "C16": dict(
        technique="stateful property-based testing (rapidcheck tape = construction + operation history, shrunk as one value); oracle: interval arithmetic on the harness's own free-region list, exactly-one-bin invariant, coordinates-in-bin",
        text="A density legalizer is constructed on generated regions or through fromIspdCircuit, then driven by a generated history of up to 25 refine / coarsen / improve / run / retarget / setParams operations; after construction and after every operation all clauses of the property are re-checked against an independent computation of the free area inside every bin of the current view.",
        note="Trusted: the harness's region list (free segments from the C15 oracle, clipped by floor(sideMargin*h_min)). Operations respect their documented level preconditions."),
    "C17": dict(
        technique=PBT + "; oracle: metamorphic scaling (bitwise for 2^k, tolerance for 2.5 and 7), differential against a dense double-precision solve with a per-case conditioning bound, duplicated-net relation through placeGlobal",
        text="Net lists with fractional weights are solved by solveStar / solve / solveWithPenalty under all four net models; scaling all weights and strengths by 2^k must leave the result bit-identical, non-dyadic factors within 1e-3 of the range; for the initial star model and for 2-pin nets the result must match the weighted least-squares optimum of the documented quadratic form computed densely in double, within a bound derived from the solver tolerance and the condition number (ill-conditioned or singular cases are counted and skipped). Through Circuit::placeGlobal the first lower bound must be invariant under a common 2^k factor and a net of weight m*u must act like m nets of weight u.",
        note="Trusted: Eigen dense LDLT and eigenvalues in double as reference. Exact ties of the two pins of a bound-to-bound net are not judged (see DESIGN.md)."),
    "C18": dict(
        technique=PBT + "; oracle: frame snapshot, monotone widths, area inequalities against the harness's own free-segment areas, reference max-over-regions for the congestion factors",
        text="expandCellsToDensity, expandCellsByFactor and computeCellExpansion on generated circuits (mixed heights, fixed cells, zero-size cells, obstructed rows) with generated targets, margins, caps, factors and overlapping congestion maps; every clause of the property is an inequality or equality checked against areas computed from the C15 free-space oracle.",
        note="Trusted: slack terms derived in DESIGN.md (one truncated unit per cell, 1e-5 relative for float accumulation)."),
    "C07": dict(
        technique="coverage-guided fuzzing (libFuzzer on the choice tape, structure-aware through the shared decoder) + property-based testing (rapidcheck), on two builds (assertions on / NDEBUG); oracle: process survival under ASan + UBSan (incl. float-cast-overflow) + assert(), std::exception accepted, 3x-confirmed single-case hang = violation",
        text="The whole flow (every stage and their compositions, with and without callbacks) is run on circuits biased to nanometre magnitudes and degenerate shapes, with every accepted parameter set of the moderate box; any assertion abort, sanitizer report, non-std exception or reproducible hang is a violation. Each confirmed root cause was repaired ('fix:' commits) or recorded and excluded by construction so that campaigns continue behind it. Absence is not established: executions and coverage are what the evidence reports.",
        note="Trusted: clang 14 sanitizer runtimes. Resource bounds of the harness (bin count, steps, reordering window) are declared in the evidence. Known finding c07-unanchored-far-from-origin excluded and counted."),
    "C20": dict(
        technique="property-based testing (Hypothesis) of the export -> read round trip with an independent Python reference HPWL, + exhaustive parse of every binding in module.cpp (programs)",
        text="Generated circuits are exported by a C++ tool built from the current tree and read back by the package's own reader against a pure-Python stand-in of the compiled module; every field the property lists must be reproduced and the wirelength must be the same before and after. All bindings of module.cpp (enum values, attributes, properties, methods, lambdas) are enumerated and must name the C++ entity of the same name.",
        note="Trusted: the stand-in module mirrors only names and plain containers; Hypothesis seeded by VERIF_SEED. The compiled module itself cannot be built in this sandbox."),
    "C09": dict(
        technique="property-based testing (rapidcheck tapes, libFuzzer in the thorough tier) + exhaustive orientation x offset table; oracle: 2x2-matrix reference geometry and from-scratch one-axis HPWL",
        text="Generated circuits with all eight orientations, pins inside/on/outside the outline, repeated cells, empty and single-pin nets; hpwl(), the placed-size and pin-offset getters and both incremental topologies (all cells / arbitrary ordered subsets, histories of up to 40 updates) are compared with an independent reference after every step. The single-cell orientation x offset table is enumerated completely. A sample outside that table.",
        note="Trusted: the matrix form of the DEF orientations written in the harness (cross-checked against the enumerated table), sanitizer runtimes. Orientation-preserving updates only, the model's documented scope."),
    "C12": dict(
        technique="property-based testing (rapidcheck) + exhaustive small-scope enumeration + libFuzzer; oracle: brute-force DP / pool-adjacent-violators optimum",
        text="Every instance within the small bounds named by the property is enumerated and compared with a brute-force optimum (complete for that sub-domain); beyond it, generated insertion histories with interleaved queries at three coordinate scales are compared with an independent isotonic-regression optimum. A sample, not a proof, outside the enumerated bounds.",
        note="Trusted: the DP and PAV oracles (cross-checked against each other on every enumerated instance), sanitizer runtimes. Assumes push() is called only when the cell fits, as its only caller guarantees."),
    "C13": dict(
        technique="property-based testing (rapidcheck, libFuzzer thorough) + exhaustive tiny instances; oracle: LEMON NetworkSimplex and brute force over all plans",
        text="Generated transportation problems (1..16 sinks, up to 200 sources, six cost classes incl. float scaling, balanced / slack / increaseCapacity) are solved and the plan is checked for feasibility, exact optimality against LEMON's network simplex in 64-bit, and the arg-max clause of toAssignment. All instances up to 3x3 with small data are enumerated against brute force, which also validates the LEMON oracle.",
        note="Trusted: LEMON NetworkSimplex as an oracle (validated against brute force on every 8th enumerated instance). Integer costs within the bound the float constructor establishes."),
    "C14": dict(
        technique="property-based testing (rapidcheck, libFuzzer thorough) + exhaustive tiny instances; oracle: LEMON NetworkSimplex / brute force, plan-vs-assignment consistency",
        text="Generated 1-D instances (unsorted, duplicate positions up to 1e8, zero supplies and demands over-weighted, balanceDemand) are solved; the plan must be valid and of minimum cost, the rounded assignment must have one in-range positive-demand sink per source and agree with the plan on unsplit sources; ASan/UBSan watch the rounding. All instances with <=3 sources, <=3 sinks, positions 0..3, amounts 0..2 are enumerated against brute force.",
        note="Trusted: LEMON as oracle (validated against brute force during the enumeration), sanitizer runtimes."),
    "C15": dict(
        technique="property-based testing (rapidcheck) + exhaustive grid enumeration; oracle: independent column-range sweep",
        text="Row::freespace and Circuit::computeRows are compared with an interval sweep that shares no code with boost::polygon: disjointness, y-extent, containment, orientation, no blocked column, every free column covered. All singles and pairs (thorough: triples) of the 420 grid rectangles around a 4x2 row are enumerated; random rows/obstacles/circuits up to 2^22 beyond.",
        note="Trusted: the sweep oracle (a dozen lines), sanitizer runtimes. Obstacle rectangles have non-negative sizes."),
    "C19": dict(
        technique="exhaustive enumeration of efforts / bounds / wrong lengths / net defects + property-based testing (rapidcheck) of random combinations; oracle: independent bounds table, frame snapshot equality, sanitizers",
        text="Every effort in -16..32 through all seven constructors, every bounded parameter field just below/above each bound, every vector setter with every wrong length, every net defect kind at every position are enumerated; random 32-bit efforts and random combinations of out-of-bound fields (incl. the cross-field rules) are generated. Each rejected set must make all three placement stages throw before any callback with the circuit bit-identical.",
        note="Trusted: the bounds table transcribed in the harness from the documented checks; probes never sit exactly on a real-valued bound."),
}


def main():
    claimed = [p for p in ALL if p in check.PROPS and (os.path.exists(os.path.join(VERIF, "harness", "prop_%s.cpp" % p)) or check.PROPS[p].get("python")) and p in META]
    try:
        hooks = subprocess.run(["git", "-C", "/repo", "log", "--format=%H %s"], capture_output=True, text=True).stdout.splitlines()
        hook_commits = [l.split()[0] for l in hooks if " hook:" in l or l.split(" ", 1)[1].startswith("hook:")]
    except Exception:
        hook_commits = []
    checks = []
    for p in claimed:
        m = META[p]
        cfg = check.PROPS[p]
        checks.append({
            "property_id": p,
            "quick_cmd": "./check.py %s --tier quick" % p,
            "thorough_cmd": "./check.py %s --tier thorough" % p,
            "evidence_file": "evidence/%s.json" % p,
            "replay_cmd_template": "./check.py %s --replay {path}" % p,
            "engine": "check.py",
            "technique": m["technique"],
            "level_claimed": {"category": cfg["level"], "text": m["text"], "design_ref": "DESIGN.md section 4, " + p},
            "level_note": m["note"],
        })
    na = [{"property_id": p, "reason": "not claimed in this revision: its check is not built yet (property-based testing applies; see DESIGN.md section 4)"}
          for p in ALL if p not in claimed]
    man = {
        "version": 1,
        "setup_cmd": "./setup.sh",
        "hooks": {
            "guard": "COLOQUINTE_VERIF",
            "enable": "check.py compiles /repo/src with clang++ -DCOLOQUINTE_VERIF plus sanitizers into its own cache; the CMake/meson builds never define it",
            "baseline_off_cmd": "cmake -G Ninja -S /repo -B /repo/_build >/dev/null && cmake --build /repo/_build && ctest --test-dir /repo/_build -j8 --timeout 900",
            "source_commits": hook_commits,
            "add_only": True,
        },
        "engines": [{
            "name": "check.py", "path": "check.py", "serves_properties": claimed,
            "kind_free_text": "driver: content-keyed build of /repo's working tree (ASan+UBSan, assertions on); per property a rapidcheck front end (choice tape generated and shrunk by rapidcheck), a libFuzzer front end (same tape decoder), exhaustive enumerators and a library-free replay front end; failures are re-run 3x, minimised, matched against known_findings.txt"}],
        "checks": checks,
        "not_applicable": na,
        "notes": "Technique family: property-based testing and fuzzing. VERIF_SEED seeds every generator; evidence/<id>.json is rewritten by every run.",
    }
    with open(os.path.join(VERIF, "MANIFEST.json"), "w") as f:
        json.dump(man, f, indent=1)
    print("claimed:", " ".join(claimed))


if __name__ == "__main__":
    main()
