#!/bin/sh
# MANIFEST.setup_cmd: build the library variants and every harness binary from
# files on disk only (no network), so that the checks start from a warm cache.
set -e
cd "$(dirname "$0")"
exec python3 check.py build
