// C11 — legalization does not move an already legal single-row placement.
#include "gen_circuit.hpp"

using namespace coloquinte;

namespace verif {
const char *propId() { return "C11"; }

namespace {
/// legalize; if it returns a legal placement, legalize again: nothing may move.
/// "" ok, "skip" first legalization infeasible, else the error.
std::string twice(const CircuitSpec &s, const ColoquinteParameters &p1, const ColoquinteParameters &p2) {
  Circuit c = s.build();
  try {
    c.legalize(p1);
  } catch (const std::exception &) {
    return "skip";
  }
  if (!legalityError(c).empty()) return "skip";
  Frame before = snap(c);
  try {
    c.legalize(p2);
  } catch (const std::exception &e) {
    return std::string("legalizing a legal placement failed: ") + e.what();
  }
  std::string d = diffFrame(before, snap(c), false, true);
  if (!d.empty()) {
    double w = p2.legalization.orderingWidth;
    std::ostringstream m;
    m << "re-legalization moved a cell: " << d << " orderingWidth=" << w << (w < 0.0 || w > 1.0 ? " (outside [0,1])" : " (inside [0,1])");
    return m.str();
  }
  return "";
}
}  // namespace

bool prop(Tape &t, Report &R) {
  if (!t.w.empty() && t.w[0] == kExplicitSpec) {
    CircuitSpec s = decodeSpec(t);
    static const double ows[] = {0.2, 0.9, 0.0, 1.0, 1.89, -1.0};
    ColoquinteParameters p1(1), p2(1);
    p1.legalization.orderingWidth = ows[t.next() % 6];
    p2.legalization.orderingWidth = ows[t.next() % 6];
    for (auto &c : s.cells)
      if (!c.fixed && s.placedH(c) != s.rowHeight) return true;  // outside the property
    if (s.nbMovable() == 0 || !specInDomain(s)) return true;  // literal specs outside the quantified domain are not judged
    {
      // a placement that is legal as given must not move at all
      Circuit c0 = s.build();
      if (legalityError(c0).empty()) {
        Frame before = snap(c0);
        try {
          c0.legalize(p2);
        } catch (const std::exception &e) {
          return R.fail(std::string("legalizing a legal placement failed: ") + e.what());
        }
        std::string d = diffFrame(before, snap(c0), false, true);
        if (!d.empty()) {
          double w = p2.legalization.orderingWidth;
          std::ostringstream m;
          m << "re-legalization moved a cell: " << d << " orderingWidth=" << w << (w < 0.0 || w > 1.0 ? " (outside [0,1])" : " (inside [0,1])");
          return R.fail(m.str() + " " + s.json());
        }
      }
    }
    std::string e = twice(s, p1, p2);
    if (e.empty() || e == "skip") return true;
    return R.fail(e + " " + s.json());
  }
  HistoryScope hist(t, R);
  GenOpts o;
  o.multiRow = false;
  o.maxCoord = (1LL << 20) - 1;
  o.overfull = false;
  if (R.thorough()) o.maxCells = 60, o.maxLevels = 16;
  CircuitSpec s = genCircuit(t, o);
  bool constructed = t.flip();
  ParamOpts po;
  ColoquinteParameters params = genParams(t, po, &s.labels);
  // Known finding: re-legalization moves cells when the ordering key is not
  // monotone in the left edge, i.e. orderingWidth outside [0,1] (see DESIGN.md).
  bool wOut = params.legalization.orderingWidth < 0.0 || params.legalization.orderingWidth > 1.0;
  if (wOut && R.known("c11-ordering-width-outside-0-1")) {
    R.exclude("c11-ordering-width-outside-0-1");
    params.legalization.orderingWidth = t.real(0.0, 1.0);
    wOut = false;
  }
  if (constructed) {
    if (!packLegal(s, t) || s.nbMovable() == 0) {
      R.discard("no free space");
      return true;
    }
  }
  for (auto &l : s.labels) R.classify(l);
  if (s.nbMovable() == 0) {
    R.discard("no movable cell");
    return true;
  }
  Circuit c = s.build();
  if (!constructed) {
    try {
      c.legalize(params);
    } catch (const std::exception &) {
      R.discard("first legalization infeasible");
      return true;
    }
  }
  std::string le = legalityError(c);
  if (!le.empty()) {
    if (constructed) return R.fail("harness: constructed placement is not legal: " + le);
    R.discard("first legalization returned an illegal placement (C01)");
    return true;
  }
  Frame before = snap(c);
  // the second call may use different (accepted) ordering parameters
  ColoquinteParameters p2 = params;
  if (t.flip(1, 3)) {
    p2.legalization.orderingY = t.real(-0.2, 0.2);
    p2.legalization.orderingHeight = t.real(-4.0, 4.0);
    if (!(wOut == false && R.known("c11-ordering-width-outside-0-1")))
      p2.legalization.orderingWidth = wOut ? t.real(-1.0, 2.0) : t.real(0.0, 1.0);
    else
      p2.legalization.orderingWidth = t.real(0.0, 1.0);
  }
  try {
    c.legalize(p2);
  } catch (const std::exception &e) {
    return R.fail(std::string("legalizing a legal placement failed: ") + e.what() + " " + s.json());
  }
  std::string d = diffFrame(before, snap(c), false, true);
  if (!d.empty()) {
    std::ostringstream m;
    m << "re-legalization moved a cell: " << d << " orderingWidth=" << p2.legalization.orderingWidth
      << (p2.legalization.orderingWidth < 0.0 || p2.legalization.orderingWidth > 1.0 ? " (outside [0,1])" : " (inside [0,1])")
      << " orderingY=" << p2.legalization.orderingY << " orderingHeight=" << p2.legalization.orderingHeight << " " << s.json();
    return R.fail(m.str());
  }
  // non-trivial: >= 3 cells, two touching in a row or a cell adjacent to an obstruction
  int n = c.nbCells(), movable = 0;
  bool touching = false;
  auto obs = fixedObstacles(c);
  for (int i = 0; i < n; ++i) {
    if (c.isFixed(i)) continue;
    ++movable;
    Rectangle a = c.placement(i);
    for (int j = 0; j < n; ++j) {
      if (j == i || c.isFixed(j)) continue;
      Rectangle b = c.placement(j);
      if (a.minY == b.minY && a.maxX == b.minX) touching = true;
    }
    for (auto &ob : obs)
      if (ob.minY < a.maxY && a.minY < ob.maxY && (ob.maxX == a.minX || ob.minX == a.maxX)) touching = true;
  }
  R.classify(constructed ? "legal:constructed" : "legal:from-legalize");
  if (movable >= 3 && touching) R.nontrivial(s.hash() ^ (constructed ? 1 : 0), [&] { return s.json(24); });
  return true;
}

// Small-scope exhaustive part: the row configurations of C01's enumerator x
// {no obstruction, 1x1 obstruction} x all combinations of 1..3 (4 thorough,
// reduced) row-high cells of width 1..3, polarity {ANY,SAME,NW}, 35 targets x
// orderingWidth pairs from {0.2,0.9}; legalize, then legalize again.
bool exhaustive(Report &R, int shard, int nshards, Tape &failTape) {
  std::vector<std::vector<Row>> cfgs = {
      {Row(0, 4, 0, 1, CellOrientation::N), Row(0, 4, 1, 2, CellOrientation::FS)},
      {Row(0, 2, 0, 1, CellOrientation::N), Row(3, 5, 0, 1, CellOrientation::N), Row(0, 5, 1, 2, CellOrientation::FS)},
      {Row(0, 3, 0, 1, CellOrientation::N), Row(0, 3, 1, 2, CellOrientation::FS), Row(0, 3, 2, 3, CellOrientation::N)}};
  struct Opt {
    int w, pol, x, y;
  };
  std::vector<Opt> full, reduced;
  for (int w = 1; w <= 3; ++w)
    for (int p : {0, 1, 3})
      for (int x = -1; x <= 5; ++x)
        for (int y = -1; y <= 3; ++y) full.push_back({w, p, x, y});
  for (int w = 1; w <= 2; ++w)
    for (int x : {0, 1, 2, 4})
      for (int y : {0, 1, 2}) reduced.push_back({w, 0, x, y});
  bool th = R.thorough();
  static const double ows[] = {0.2, 0.9};
  long long idx = 0;
  auto runOne = [&](const CircuitSpec &s, int o1, int o2) -> bool {
    ColoquinteParameters p1(1), p2(1);
    p1.legalization.orderingWidth = ows[o1];
    p2.legalization.orderingWidth = ows[o2];
    ++R.exhaustiveStates;
    R.heartbeat();
    std::string e = twice(s, p1, p2);
    if (e == "skip") return true;
    if (!e.empty()) {
      R.fail(e + " " + s.json());
      failTape = encodeSpec(s, {o1, o2});
      return false;
    }
    if (s.nbMovable() >= 2) ++R.nontrivialCount;
    return true;
  };
  for (size_t ci = 0; ci < cfgs.size(); ++ci)
    for (int obst = 0; obst < 2; ++obst) {
      CircuitSpec base;
      base.rowHeight = 1;
      base.rows = cfgs[ci];
      if (obst) {
        CellSpec f;
        f.fixed = true, f.obstruction = true, f.w = 1, f.h = 1, f.x = 1, f.y = 0;
        base.cells.push_back(f);
      }
      auto mk = [&](const Opt &o) {
        CellSpec c;
        c.w = o.w, c.h = 1, c.polarity = o.pol, c.x = o.x, c.y = o.y;
        return c;
      };
      for (size_t a = 0; a < full.size(); ++a) {
        if ((idx++) % nshards != shard) continue;
        for (int o1 = 0; o1 < 2; ++o1)
          for (int o2 = 0; o2 < 2; ++o2) {
            CircuitSpec s1 = base;
            s1.cells.push_back(mk(full[a]));
            if (!runOne(s1, o1, o2)) return false;
            if (o1 != o2) continue;
            for (size_t b = 0; b < full.size(); ++b) {
              CircuitSpec s2 = s1;
              s2.cells.push_back(mk(full[b]));
              if (!runOne(s2, o1, o2)) return false;
            }
          }
      }
      for (size_t a = 0; a < reduced.size(); ++a) {
        if ((idx++) % nshards != shard) continue;
        for (size_t b = 0; b < reduced.size(); ++b)
          for (size_t d = 0; d < reduced.size(); ++d) {
            CircuitSpec s3 = base;
            s3.cells.push_back(mk(reduced[a])), s3.cells.push_back(mk(reduced[b])), s3.cells.push_back(mk(reduced[d]));
            if (!runOne(s3, 0, 1)) return false;
            if (!th) continue;
            for (size_t e = 0; e < reduced.size(); e += 2) {
              CircuitSpec s4 = s3;
              s4.cells.push_back(mk(reduced[e]));
              if (!runOne(s4, 1, 0)) return false;
            }
          }
      }
    }
  R.exhaustiveDone = true;
  R.sample("{\"exhaustive\":\"3 row configurations x {no obstruction, 1x1 obstruction} x all 1..2 row-high cell combinations (3 widths x 3 polarities x 35 targets), all 3-cell (4 thorough) combinations from a reduced set; legalize, then legalize again with orderingWidth pairs from {0.2,0.9}\"}");
  return true;
}
}  // namespace verif
