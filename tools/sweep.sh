#!/bin/bash
# usage: tools/sweep.sh <tier> <seed>...   run every registered check with the given seeds; print one verdict line each
cd "$(dirname "$0")/.."
tier=$1; shift
for seed in "$@"; do
  for id in C01 C02 C03 C04 C05 C06 C07 C08 C09 C10 C11 C12 C13 C14 C15 C16 C17 C18 C19 C20; do
    out=$(VERIF_SEED=$seed VERIF_OUT_DIR=$PWD/_sweep_out ./check.py $id --tier $tier 2>&1 | grep -v WARNING)
    rc=$?
    echo "seed=$seed $id exit=$(echo "$out" | grep -c '^VIOLATION') $(echo "$out" | grep -E "^C[0-9]+ (quick|thorough):" | tail -1)"
    echo "$out" | grep -E "^VIOLATION|^  reason|^inconclusive" | head -6
  done
done
