// C12 — single-row legalizer: order-preserving, optimal, exact and pure costs.
//
// Oracles (none shares code with RowLegalizer):
//  * brute-force DP over integer positions (small instances),
//  * pool-adjacent-violators with weighted medians on t_i - cumWidth_i,
//    clipped to [b, e - sum w] (any size); the two are cross-checked.
#include <algorithm>
#include <climits>
#include <sstream>

#include "evidence.hpp"
#include "place_detailed/row_legalizer.hpp"

using coloquinte::RowLegalizer;

namespace verif {
const char *propId() { return "C12"; }

namespace {
struct Cell {
  int w, t;
};
struct Query {
  int w, t;
};
struct Inst {
  int b = 0, e = 1;
  std::vector<Cell> cells;
  std::vector<std::vector<Query>> queries;  // before each push
  std::vector<Cell> reused;  // pushed and then clear()ed before the judged sequence (object reuse)
  std::string json() const {
    std::ostringstream s;
    s << "{\"begin\":" << b << ",\"end\":" << e << ",\"pushes\":[";
    for (size_t i = 0; i < cells.size(); ++i) {
      if (i) s << ",";
      s << "[" << cells[i].w << "," << cells[i].t << "]";
    }
    s << "],\"queries_before_push\":[";
    for (size_t i = 0; i < queries.size(); ++i) {
      if (i) s << ",";
      s << queries[i].size();
    }
    s << "]}";
    return s.str();
  }
};

typedef __int128 i128;

/// Weighted displacement of a placement.
i128 dispCost(const std::vector<Cell> &c, const std::vector<int> &x, size_t n) {
  i128 r = 0;
  for (size_t i = 0; i < n; ++i) {
    long long d = (long long)x[i] - c[i].t;
    if (d < 0) d = -d;
    r += (i128)d * c[i].w;
  }
  return r;
}

/// Brute-force DP (positions are integers in [b, e]).
i128 optDP(int b, int e, const std::vector<Cell> &c, size_t n) {
  int L = e - b;
  const i128 INF = (i128)1 << 100;
  std::vector<i128> f(L + 1, 0), g(L + 1);
  // f[p] = min cost of cells < i with all of them ending at or before b+p
  for (size_t i = 0; i < n; ++i) {
    for (int p = 0; p <= L; ++p) g[p] = INF;
    for (int p = 0; p + c[i].w <= L; ++p) {
      // cell i at x = b + p, previous cells end <= b+p
      if (f[p] >= INF) continue;
      long long d = (long long)(b + p) - c[i].t;
      if (d < 0) d = -d;
      i128 v = f[p] + (i128)d * c[i].w;
      int endp = p + c[i].w;
      if (v < g[endp]) g[endp] = v;
    }
    // prefix min: ending at or before
    for (int p = 1; p <= L; ++p)
      if (g[p - 1] < g[p]) g[p] = g[p - 1];
    f = g;
  }
  return f[L];
}

/// PAV isotonic L1 regression with weights, box-clipped.
i128 optPAV(int b, int e, const std::vector<Cell> &c, size_t n) {
  if (n == 0) return 0;
  struct Block {
    std::vector<std::pair<long long, long long>> pts;  // (a, w)
    long long med;
  };
  auto median = [](std::vector<std::pair<long long, long long>> &pts) {
    std::sort(pts.begin(), pts.end());
    long long tot = 0;
    for (auto &p : pts) tot += p.second;
    long long acc = 0;
    for (auto &p : pts) {
      acc += p.second;
      if (2 * acc >= tot) return p.first;
    }
    return pts.back().first;
  };
  std::vector<Block> st;
  long long cum = 0;
  std::vector<long long> a(n);
  for (size_t i = 0; i < n; ++i) {
    a[i] = (long long)c[i].t - cum;
    cum += c[i].w;
    Block nb;
    nb.pts.push_back({a[i], c[i].w});
    nb.med = a[i];
    st.push_back(nb);
    while (st.size() >= 2 && st[st.size() - 2].med > st.back().med) {
      Block top = st.back();
      st.pop_back();
      auto &prev = st.back();
      prev.pts.insert(prev.pts.end(), top.pts.begin(), top.pts.end());
      prev.med = median(prev.pts);
    }
  }
  long long lo = b, hi = (long long)e - cum;
  i128 cost = 0;
  for (auto &bl : st) {
    long long y = std::min(std::max(bl.med, lo), hi);
    for (auto &p : bl.pts) {
      long long d = y - p.first;
      if (d < 0) d = -d;
      cost += (i128)d * p.second;
    }
  }
  return cost;
}

std::string i128s(i128 v) {
  bool neg = v < 0;
  if (neg) v = -v;
  std::string s;
  do {
    s += char('0' + (int)(v % 10));
    v /= 10;
  } while (v > 0);
  if (neg) s += '-';
  std::reverse(s.begin(), s.end());
  return s;
}

/// Judge one instance.  `useDP`: also compute the brute-force optimum.
bool judge(const Inst &in, Report &R, bool useDP, bool &displaced,
           bool &rightEndActive) {
  RowLegalizer leg(in.b, in.e);   // receives queries
  RowLegalizer twin(in.b, in.e);  // never queried
  if (!in.reused.empty()) {
    // a reused object: after clear() it must behave like a new one
    for (const Cell &c : in.reused)
      if (leg.remainingSpace() >= c.w) leg.push(c.w, c.t);
    leg.clear();
    if (leg.usedSpace() != 0 || leg.remainingSpace() != in.e - in.b || !leg.getPlacement().empty())
      return R.fail("clear() did not empty the row");
  }
  i128 sumCosts = 0;
  displaced = false;
  rightEndActive = false;
  for (size_t i = 0; i < in.cells.size(); ++i) {
    // Arbitrary fitting queries: prediction == what a copy reports on push,
    // and the queried object is unchanged (checked through the twin below).
    if (i < in.queries.size()) {
      for (const Query &q : in.queries[i]) {
        if (leg.remainingSpace() < q.w) continue;
        long long pred = leg.getCost(q.w, q.t);
        RowLegalizer cp = twin;
        long long real = cp.push(q.w, q.t);
        if (pred != real) {
          std::ostringstream s;
          s << "prediction-mismatch query(w=" << q.w << ",t=" << q.t
            << ") predicted=" << pred << " performed=" << real << " after "
            << i << " pushes";
          return R.fail(s.str());
        }
      }
    }
    const Cell &c = in.cells[i];
    if (leg.remainingSpace() < c.w) return R.fail("harness: cell does not fit");
    long long pred = leg.getCost(c.w, c.t);
    long long cost = leg.push(c.w, c.t);
    long long tcost = twin.push(c.w, c.t);
    if (pred != cost) {
      std::ostringstream s;
      s << "prediction-mismatch push " << i << " predicted=" << pred
        << " reported=" << cost;
      return R.fail(s.str());
    }
    if (tcost != cost) {
      std::ostringstream s;
      s << "query-not-pure push " << i << " cost with queries=" << cost
        << " without=" << tcost;
      return R.fail(s.str());
    }
    sumCosts += cost;
    std::vector<int> pl = leg.getPlacement();
    std::vector<int> tpl = twin.getPlacement();
    if (pl != tpl) return R.fail("query-not-pure placement differs from twin");
    if (pl.size() != i + 1) return R.fail("placement-size");
    // order, overlap, containment
    for (size_t k = 0; k <= i; ++k) {
      if (pl[k] < in.b || pl[k] + in.cells[k].w > in.e) {
        std::ostringstream s;
        s << "outside-segment cell " << k << " at " << pl[k];
        return R.fail(s.str());
      }
      if (k > 0 && pl[k] < pl[k - 1] + in.cells[k - 1].w) {
        std::ostringstream s;
        s << "order-or-overlap cells " << k - 1 << "," << k;
        return R.fail(s.str());
      }
      if (pl[k] != in.cells[k].t) displaced = true;
    }
    if (pl[i] + in.cells[i].w == in.e) rightEndActive = true;
    i128 opt = optPAV(in.b, in.e, in.cells, i + 1);
    if (useDP) {
      i128 dp = optDP(in.b, in.e, in.cells, i + 1);
      if (dp != opt)
        return R.fail("harness: oracle mismatch PAV=" + i128s(opt) +
                      " DP=" + i128s(dp));
    }
    i128 got = dispCost(in.cells, pl, i + 1);
    if (got != opt) {
      return R.fail("not-optimal after push " + std::to_string(i) +
                    " displacement=" + i128s(got) + " optimum=" + i128s(opt));
    }
    if (sumCosts != opt) {
      return R.fail("cost-sum-mismatch after push " + std::to_string(i) +
                    " sum=" + i128s(sumCosts) + " optimum=" + i128s(opt) +
                    (rightEndActive ? " right-end-active" : ""));
    }
  }
  return true;
}

constexpr uint32_t kExplicit = 0xE7E7E7E7u;

Tape encodeExplicit(int b, int e, const std::vector<Cell> &cells) {
  Tape t;
  t.w = {kExplicit, (uint32_t)b, (uint32_t)e, (uint32_t)cells.size()};
  for (auto &c : cells) {
    t.w.push_back((uint32_t)c.w);
    t.w.push_back((uint32_t)c.t);
  }
  return t;
}

Inst decode(Tape &t, int &mode) {
  Inst in;
  uint32_t m0 = t.next();
  if (m0 == kExplicit) {
    // Explicit encoding (used for failures of the exhaustive enumerator):
    // begin, end, n, then (w, t) raw; cells that do not fit end the list.
    mode = 0;
    in.b = (int)(int32_t)t.next();
    in.e = (int)(int32_t)t.next();
    in.b = std::max(-(1 << 22), std::min(in.b, (1 << 22) - 1));
    in.e = std::max(in.b + 1, std::min(in.e, 1 << 22));
    int n = (int)(t.next() % 64);
    int used = 0;
    for (int i = 0; i < n; ++i) {
      Cell c;
      c.w = (int)(t.next() % (1u << 22));
      c.t = (int)(int32_t)t.next();
      c.t = std::max(-(1 << 22), std::min(c.t, 1 << 22));
      if (c.w < 1 || used + c.w > in.e - in.b) break;
      used += c.w;
      in.cells.push_back(c);
    }
    return in;
  }
  {
    int v = (int)(m0 % 11);
    mode = v < 5 ? 0 : v < 8 ? 1 : 2;
  }
  long long maxCoord = mode == 0 ? 16 : mode == 1 ? 400 : (1LL << 22);
  int maxLen = mode == 0 ? 12 : mode == 1 ? 200 : (1 << 22);
  int maxW = mode == 0 ? 3 : mode == 1 ? 20 : (1 << 12);
  int len = (int)t.range(1, maxLen);
  long long b = t.range(-maxCoord, maxCoord - len);
  if (t.flip(1, 3)) b = 0;
  in.b = (int)b;
  in.e = (int)(b + len);
  int n = t.choose(1, mode == 0 ? 6 : 40);
  int used = 0;
  for (int i = 0; i < n; ++i) {
    int rem = len - used;
    if (rem <= 0) break;
    std::vector<Query> qs;
    int nq = t.weighted({6, 3, 1});
    for (int k = 0; k < nq; ++k) {
      Query q;
      q.w = t.choose(1, std::min(maxW, rem));
      q.t = (int)t.range(in.b - 3 - len / 2, in.e + 3 + len / 2);
      qs.push_back(q);
    }
    in.queries.push_back(qs);
    Cell c;
    int wcls = t.weighted({6, 2, 1});
    c.w = wcls == 2 ? rem : t.choose(1, std::min(wcls == 0 ? maxW : maxW * 4, rem));
    int tc = t.weighted({4, 3, 2, 2, 1});
    switch (tc) {
      case 0: c.t = (int)t.range(in.b, in.e - 1); break;            // inside
      case 1: c.t = (int)t.range(in.b - 3, in.e + 3); break;        // near
      case 2: c.t = (int)t.range(in.b + used - 2, in.b + used + 2); break;  // packed
      case 3: c.t = (int)t.range(in.e - 4, in.e + 4); break;        // right end
      default: c.t = (int)t.range(-maxCoord, maxCoord); break;      // far
    }
    used += c.w;
    in.cells.push_back(c);
  }
  return in;
}
}  // namespace

bool prop(Tape &t, Report &R) {
  int mode;
  Inst in = decode(t, mode);
  // decided last: the queried object is a reused one (some pushes, then clear())
  if (t.flip(1, 4)) {
    int k = t.choose(1, 4);
    for (int i = 0; i < k; ++i) {
      Cell c;
      c.w = (int)t.range(1, std::max(1, (in.e - in.b) / 2));
      c.t = (int)t.range((long long)in.b - (in.e - in.b), (long long)in.e + (in.e - in.b));
      in.reused.push_back(c);
    }
    R.classify("object:reused-after-clear");
  }
  static const char *mname[] = {"scale:small", "scale:medium", "scale:2^22"};
  R.classify(mname[mode]);
  R.classify("cells:" + std::to_string(std::min<size_t>(in.cells.size(), 8) ) + (in.cells.size() >= 8 ? "+" : ""));
  bool displaced, rightEnd;
  bool ok = judge(in, R, mode == 0, displaced, rightEnd);
  if (!ok) return false;
  if (rightEnd) R.classify("right-end-active");
  if (displaced) {
    R.classify("displaced");
    Hasher h;
    h.add(in.b).add(in.e);
    for (auto &c : in.cells) h.add(c.w).add(c.t);
    R.nontrivial(h.h, [&] { return in.json(); });
  }
  return true;
}

// Exhaustive: segment [0,len) len<=7 (8 thorough), widths 1..3, <=4 cells,
// targets in [-3, len+3]; every prefix is judged (so each node of the prefix
// tree is one instance), every child insertion is first predicted on the
// shared parent object (purity under many queries) and then performed.
namespace {
struct Exh {
  Report &R;
  int len, maxCells;
  std::vector<Cell> cells;
  Tape *failTape;
  bool dfs(RowLegalizer &queried, const RowLegalizer &pristine, i128 sum) {
    ++R.exhaustiveStates;
    R.heartbeat();
    size_t n = cells.size();
    if (n > 0) {
      std::vector<int> pl = queried.getPlacement();
      if (pl != pristine.getPlacement())
        return R.fail("query-not-pure placement differs from twin");
      bool displaced = false;
      for (size_t k = 0; k < n; ++k) {
        if (pl[k] < 0 || pl[k] + cells[k].w > len)
          return R.fail("outside-segment");
        if (k > 0 && pl[k] < pl[k - 1] + cells[k - 1].w)
          return R.fail("order-or-overlap");
        if (pl[k] != cells[k].t) displaced = true;
      }
      i128 dp = optDP(0, len, cells, n);
      i128 pav = optPAV(0, len, cells, n);
      if (dp != pav) return R.fail("harness: oracle mismatch");
      i128 got = dispCost(cells, pl, n);
      if (got != dp)
        return R.fail("not-optimal displacement=" + i128s(got) +
                      " optimum=" + i128s(dp));
      if (sum != dp)
        return R.fail("cost-sum-mismatch sum=" + i128s(sum) +
                      " optimum=" + i128s(dp));
      if (displaced) {
        ++R.nontrivialCount;
      }
    }
    if ((int)n == maxCells) return true;
    int rem = queried.remainingSpace();
    for (int w = 1; w <= 3 && w <= rem; ++w) {
      for (int t = -3; t <= len + 3; ++t) {
        long long pred = queried.getCost(w, t);
        RowLegalizer q2 = queried;
        RowLegalizer p2 = pristine;
        long long c1 = q2.push(w, t);
        long long c2 = p2.push(w, t);
        cells.push_back({w, t});
        if (pred != c1 || c1 != c2) {
          return R.fail("prediction-mismatch predicted=" + std::to_string(pred) +
                        " queried-object=" + std::to_string(c1) +
                        " pristine=" + std::to_string(c2));
        }
        if (!dfs(q2, p2, sum + c1)) return false;
        cells.pop_back();
      }
    }
    return true;
  }
};
}  // namespace

bool exhaustive(Report &R, int shard, int nshards, Tape &failTape) {
  int maxLen = R.thorough() ? 8 : 7;
  int idx = 0;
  for (int len = 1; len <= maxLen; ++len) {
    for (int w = 1; w <= 3 && w <= len; ++w) {
      for (int t = -3; t <= len + 3; ++t, ++idx) {
        if (idx % nshards != shard) continue;
        Exh ex{R, len, 4, {}, &failTape};
        RowLegalizer q(0, len), p(0, len);
        long long pred = q.getCost(w, t);
        long long c1 = q.push(w, t);
        long long c2 = p.push(w, t);
        ex.cells.push_back({w, t});
        bool ok = true;
        if (pred != c1 || c1 != c2) {
          ok = R.fail("prediction-mismatch first push");
        } else {
          ok = ex.dfs(q, p, c1);
        }
        if (!ok) {
          std::ostringstream s;
          s << R.failReason << " instance: [0," << len << ")";
          for (auto &c : ex.cells) s << " (" << c.w << "," << c.t << ")";
          R.failReason = s.str();
          R.sample("{\"failing\":\"" + jsonEscape(s.str()) + "\"}");
          failTape = encodeExplicit(0, len, ex.cells);
          return false;
        }
      }
    }
  }
  R.exhaustiveDone = true;
  {
    std::ostringstream s;
    s << "{\"exhaustive\":\"segment [0,len) len<=" << maxLen
      << ", widths 1..3, <=4 cells, targets -3..len+3; shard " << shard << "/"
      << nshards << "\"}";
    R.sample(s.str());
  }
  return true;
}
}  // namespace verif
