#!/usr/bin/env python3
"""Sensitivity runs: apply a patch to a scratch worktree of /repo, run checks against it.

  tools/mutant.py <patch.diff> <ID>[,<ID>...] [--tier quick|thorough] [--tests] [--keep] [--save-tape <file-stem>]

--save-tape copies the first reported replay file of a CAUGHT run to <file-stem><ext> (used to
harvest regression tapes for the replay tier; the caller checks that they pass on /repo).

Nothing in /repo or in /verif's evidence is touched: the scratch worktree lives under
/tmp, with its own build cache and output directory, and is removed afterwards.
Prints one line per property: MUTANT <patch> <ID>: CAUGHT | MISSED | BUILD-FAILED.
With --tests the repository's own test-suite is built and run on the mutant first.
"""
import os
import re
import shutil
import subprocess
import sys
import tempfile

VERIF = os.path.dirname(os.path.dirname(os.path.abspath(__file__)))


def main():
    a = sys.argv[1:]
    patch = os.path.abspath(a[0])
    ids = a[1].split(",")
    tier = "quick"
    tests = "--tests" in a
    keep = "--keep" in a
    if "--tier" in a:
        tier = a[a.index("--tier") + 1]
    save = a[a.index("--save-tape") + 1] if "--save-tape" in a else None
    scratch = tempfile.mkdtemp(prefix="vmut-", dir="/tmp")
    os.rmdir(scratch)
    r = subprocess.run(["git", "-C", "/repo", "worktree", "add", "--detach", scratch, "HEAD"],
                       stdout=subprocess.PIPE, stderr=subprocess.STDOUT, text=True)
    if r.returncode != 0:
        print(r.stdout)
        return 2
    rc_all = 0
    try:
        r = subprocess.run(["git", "-C", scratch, "apply", patch], stdout=subprocess.PIPE,
                           stderr=subprocess.STDOUT, text=True)
        if r.returncode != 0:
            print("PATCH-DOES-NOT-APPLY %s\n%s" % (patch, r.stdout))
            return 2
        name = os.path.basename(patch)
        if tests:
            b = os.path.join(scratch, "_build")
            r = subprocess.run("cmake -G Ninja -S %s -B %s -DCMAKE_BUILD_TYPE=RelWithDebInfo >/dev/null && "
                               "cmake --build %s 2>&1 | tail -3 && ctest --test-dir %s -j8 --timeout 900 2>&1 | tail -4"
                               % (scratch, b, b, b), shell=True, stdout=subprocess.PIPE,
                               stderr=subprocess.STDOUT, text=True)
            ok = "100% tests passed" in r.stdout
            print("MUTANT %s unit-tests: %s" % (name, "PASS" if ok else "FAIL"))
            if not ok:
                print(r.stdout[-1500:])
            shutil.rmtree(b, ignore_errors=True)
        env = dict(os.environ)
        env["VERIF_REPO"] = scratch
        env["VERIF_BUILD"] = os.path.join(scratch, "_verif_build")
        env["VERIF_OUT_DIR"] = os.path.join(scratch, "_verif_out")
        for pid in ids:
            r = subprocess.run([os.path.join(VERIF, "check.py"), pid, "--tier", tier], env=env,
                               stdout=subprocess.PIPE, stderr=subprocess.STDOUT, text=True)
            viol = [ln for ln in r.stdout.splitlines() if ln.startswith("VIOLATION") or ln.startswith("  reason")]
            if "BUILD-FAILED" in r.stdout:
                verdict = "BUILD-FAILED"
                print(r.stdout[-2000:])
            elif r.returncode == 1 and viol:
                verdict = "CAUGHT"
            elif r.returncode == 0:
                verdict = "MISSED"
                rc_all = 1
            else:
                verdict = "ERROR(exit %d)" % r.returncode
                print(r.stdout[-2000:])
            summ = [ln for ln in r.stdout.splitlines() if re.match(r"C\d+ (quick|thorough):", ln)]
            print("MUTANT %s %s: %s   %s" % (name, pid, verdict, summ[0] if summ else ""))
            for ln in viol[:4]:
                print("    " + ln.strip()[:300])
            if save and verdict == "CAUGHT":
                m = re.search(r"^VIOLATION property=\S+ replay=(\S+)", r.stdout, re.M)
                if m and os.path.isfile(m.group(1)):
                    dst = save + os.path.splitext(m.group(1))[1]
                    os.makedirs(os.path.dirname(dst), exist_ok=True)
                    shutil.copy(m.group(1), dst)
                    print("    saved " + dst)
    finally:
        if not keep:
            subprocess.run(["git", "-C", "/repo", "worktree", "remove", "--force", scratch],
                           stdout=subprocess.DEVNULL, stderr=subprocess.DEVNULL)
            shutil.rmtree(scratch, ignore_errors=True)
            subprocess.run(["git", "-C", "/repo", "worktree", "prune"])
    return rc_all


if __name__ == "__main__":
    sys.exit(main())
