#!/bin/bash
# usage: tools/harvest_seed_tapes.sh [<seed-dir-name>...]     (default: every directory under seeded/)
# For each independently seeded change, run the quick tier against it and keep the (minimised)
# failing tape as replays/<ID>/seeded-<name>.tape -- provided that the tape passes on /repo itself.
# The replay tier then re-detects that change in seconds.
cd "$(dirname "$0")/.."
names=("$@"); [ ${#names[@]} = 0 ] && names=($(ls seeded))
for n in "${names[@]}"; do
  id=${n:0:3}
  stem=replays/$id/seeded-$n
  ls $stem.* >/dev/null 2>&1 && { echo "$n: already harvested"; continue; }
  out=$(timeout 1800 tools/mutant.py seeded/$n/patch.diff $id --save-tape $PWD/$stem 2>&1 | grep -E "^MUTANT|saved")
  echo "$n: $out" | tr '\n' ' '; echo
  f=$(ls $stem.* 2>/dev/null | head -1)
  [ -z "$f" ] && continue
  if ./check.py $id --replay $f >/dev/null 2>&1; then echo "$n: tape passes on /repo -> kept $f"; else echo "$n: tape FAILS on /repo -> dropped"; rm -f $f; fi
done
