// C13 — transportation solver: feasible, minimum cost, arg-max assignment.
// Oracles: LEMON NetworkSimplex (long long) on the same integer costs, and a
// brute-force enumeration of all plans for tiny instances (which also
// validates the LEMON oracle).
#include <algorithm>
#include <climits>
#include <cmath>
#include <sstream>

#include "evidence.hpp"
#include "flow_oracle.hpp"
#include "place_global/transportation.hpp"

using coloquinte::TransportationProblem;

namespace verif {
const char *propId() { return "C13"; }

namespace {
struct Inst {
  std::vector<ll> cap, dem;
  std::vector<std::vector<int>> icost;      // [sink][source]
  std::vector<std::vector<float>> fcost;    // used when isFloat
  bool isFloat = false;
  bool needIncrease = false;
  // object history before the judged solve: 0 none, 1 an earlier solve(), 2 an initial
  // assignment (every source to sink histSink), 3 solve() then that assignment
  int history = 0, histSink = 0;
  std::string costClass, capClass;
  std::string json() const {
    std::ostringstream s;
    s << "{\"capacities\":" << jsonArr(cap) << ",\"demands\":" << jsonArr(dem)
      << ",\"cost_class\":\"" << costClass << "\",\"capacity_class\":\""
      << capClass << "\",\"float_costs\":" << (isFloat ? "true" : "false");
    if (cap.size() * dem.size() <= 24) {
      s << ",\"costs\":[";
      for (size_t i = 0; i < cap.size(); ++i) {
        if (i) s << ",";
        if (isFloat)
          s << jsonArr(fcost[i]);
        else
          s << jsonArr(icost[i]);
      }
      s << "]";
    }
    s << "}";
    return s.str();
  }
};

/// Run the solver and judge the plan.  opt < 0: compute with LEMON.
bool judge(const Inst &in, Report &R, bool haveOpt, i128 opt, bool &nontrivial) {
  nontrivial = false;
  std::vector<ll> cap, dem;
  std::vector<std::vector<int>> costs;
  std::vector<std::vector<ll>> alloc;
  std::vector<int> assign;
  try {
    TransportationProblem pb =
        in.isFloat ? TransportationProblem(in.cap, in.dem, in.fcost)
                   : TransportationProblem(in.cap, in.dem, in.icost);
    if (in.needIncrease) pb.increaseCapacity();
    if (pb.totalDemand() > pb.totalCapacity())
      return R.fail("increaseCapacity left demand above capacity");
    if (in.history == 1 || in.history == 3) pb.solve();
    if (in.history >= 2) pb.setAssignment(std::vector<int>(in.dem.size(), in.histSink % (int)in.cap.size()));
    pb.solve();
    cap = pb.capacities();
    dem = pb.demands();
    costs = pb.costs();
    alloc = pb.allocations();
    assign = pb.toAssignment();
  } catch (const std::exception &e) {
    return R.fail(std::string("exception: ") + e.what());
  }
  int ns = cap.size(), nd = dem.size();
  if (dem != in.dem) return R.fail("demands changed");
  if (!in.isFloat) {
    // "minimal" means minimal for the costs the caller supplied, whatever the solver keeps internally
    costs = in.icost;
  } else {
    // the fixed-point representation must keep, for every source, the cost differences between
    // sinks (a common factor and per-source offsets do not change which plans are minimal; anything
    // else does), up to its rounding
    double maxF = 0;
    for (auto &r : in.fcost)
      for (float f : r) maxF = std::max(maxF, (double)std::fabs(f));
    TransportationProblem probe(in.cap, in.dem, in.fcost);
    for (int j = 0; j < nd; ++j)
      for (int i = 1; i < ns; ++i) {
        double got = probe.originalCost(i, j) - probe.originalCost(0, j);
        double want = (double)in.fcost[i][j] - (double)in.fcost[0][j];
        if (std::fabs(got - want) > 2e-6 * maxF + 1e-30) {
          std::ostringstream s;
          s << "float costs of source " << j << ": sink " << i << " minus sink 0 is " << want << " but is represented as " << got;
          return R.fail(s.str());
        }
      }
  }
  if ((int)alloc.size() != ns) return R.fail("allocation shape");
  i128 total = 0;
  for (int i = 0; i < ns; ++i) {
    if ((int)alloc[i].size() != nd) return R.fail("allocation shape");
    i128 used = 0;
    for (int j = 0; j < nd; ++j) {
      if (alloc[i][j] < 0) {
        std::ostringstream s;
        s << "negative-allocation sink " << i << " source " << j;
        return R.fail(s.str());
      }
      used += alloc[i][j];
      total += (i128)alloc[i][j] * costs[i][j];
    }
    if (used > cap[i]) {
      std::ostringstream s;
      s << "capacity-exceeded sink " << i << " used=" << i128s(used)
        << " capacity=" << cap[i];
      return R.fail(s.str());
    }
  }
  for (int j = 0; j < nd; ++j) {
    i128 got = 0;
    for (int i = 0; i < ns; ++i) got += alloc[i][j];
    if (got != dem[j]) {
      std::ostringstream s;
      s << "source-not-fully-allocated source " << j << " got=" << i128s(got)
        << " demand=" << dem[j];
      return R.fail(s.str());
    }
  }
  if (!haveOpt) opt = lemonOpt(cap, dem, costs);
  if (total != opt) {
    return R.fail("not-minimum-cost plan=" + i128s(total) +
                  " optimum=" + i128s(opt));
  }
  if ((int)assign.size() != nd) return R.fail("assignment size");
  for (int j = 0; j < nd; ++j) {
    int a = assign[j];
    if (a < 0 || a >= ns) return R.fail("assignment out of range");
    for (int i = 0; i < ns; ++i) {
      if (alloc[i][j] > alloc[a][j]) {
        std::ostringstream s;
        s << "assignment-not-argmax source " << j << " assigned sink " << a
          << " (" << alloc[a][j] << ") but sink " << i << " receives "
          << alloc[i][j];
        return R.fail(s.str());
      }
    }
  }
  // non-trivial: the capacity-blind cheapest assignment is infeasible
  i128 lower = 0;
  for (int j = 0; j < nd; ++j) {
    int m = INT_MAX;
    for (int i = 0; i < ns; ++i) m = std::min(m, costs[i][j]);
    lower += (i128)dem[j] * m;
  }
  nontrivial = opt > lower;
  return true;
}

std::vector<ll> splitTotal(Tape &t, ll total, int k) {
  // k positive parts summing to total (requires total >= k)
  std::vector<ll> w(k), out(k, 1);
  ll W = 0;
  for (int i = 0; i < k; ++i) {
    w[i] = 1 + (ll)(t.next() % 1000);
    W += w[i];
  }
  ll rest = total - k, given = 0;
  for (int i = 0; i < k; ++i) {
    ll g = (ll)((i128)rest * w[i] / W);
    out[i] += g;
    given += g;
  }
  ll left = rest - given;
  for (int i = 0; left > 0; i = (i + 1) % k, --left) out[i] += 1;
  return out;
}

Inst decode(Tape &t, bool thorough) {
  Inst in;
  if (!t.w.empty() && t.w[0] == 0xE7E7E7E7u) {
    // explicit encoding written by the exhaustive enumerator
    t.next();
    int ns = 1 + (int)((t.next() - 1) % 16), nd = 1 + (int)((t.next() - 1) % 64);
    ll tc = 0, td = 0;
    for (int i = 0; i < ns; ++i) in.cap.push_back(1 + (t.next() - 1) % 1000), tc += in.cap.back();
    for (int j = 0; j < nd; ++j) in.dem.push_back(1 + (t.next() - 1) % 1000), td += in.dem.back();
    if (tc < td) in.cap[0] += td - tc;
    in.icost.assign(ns, std::vector<int>(nd));
    for (int i = 0; i < ns; ++i)
      for (int j = 0; j < nd; ++j) in.icost[i][j] = (int)(t.next() % 100000);
    in.costClass = "explicit";
    in.capClass = "explicit";
    return in;
  }
  int ns = t.weighted({1, 2, 3, 3, 2, 1}) ;
  static const int nsLo[] = {1, 2, 3, 4, 7, 12};
  static const int nsHi[] = {1, 2, 3, 6, 11, 16};
  ns = t.choose(nsLo[ns], nsHi[ns]);
  int ndCls = t.weighted({4, 4, 2});
  int nd = ndCls == 0 ? t.choose(1, 6) : ndCls == 1 ? t.choose(7, 40)
                                                    : t.choose(41, thorough ? 200 : 80);
  int dcls = t.weighted({5, 2, 2});  // small, large, mixed
  in.dem.resize(nd);
  ll totD = 0;
  for (int j = 0; j < nd; ++j) {
    bool large = dcls == 1 || (dcls == 2 && t.flip(1, 3));
    in.dem[j] = large ? t.range(1, 1000000000LL) : t.range(1, 50);
    totD += in.dem[j];
  }
  int ccls = t.weighted({3, 3, 2});  // balanced, slack, short+increase
  if (ccls == 0 && totD >= ns) {
    in.cap = splitTotal(t, totD, ns);
    in.capClass = "balanced";
  } else if (ccls == 2 && totD > ns) {
    ll deficit = t.range(1, totD - ns);
    in.cap = splitTotal(t, totD - deficit, ns);
    in.needIncrease = true;
    in.capClass = "short+increaseCapacity";
  } else {
    ll extra = t.flip() ? t.range(0, 5) : t.range(0, totD);
    in.cap = splitTotal(t, totD + extra + ns, ns);
    in.capClass = "slack";
  }
  // costs
  int kcls = t.weighted({3, 3, 2, 2, 1, 2});
  int maxc = INT_MAX / (4 * ns);
  in.icost.assign(ns, std::vector<int>(nd, 0));
  switch (kcls) {
    case 0: {  // distance-like: sinks and sources on a small grid, 6 norms
      in.costClass = "distance";
      int norm = t.choose(0, 5);
      std::vector<int> sx(ns), sy(ns), cx(nd), cy(nd);
      int span = t.flip() ? 8 : 1000;
      for (int i = 0; i < ns; ++i) sx[i] = t.choose(0, span), sy[i] = t.choose(0, span);
      for (int j = 0; j < nd; ++j) cx[j] = t.choose(0, span), cy[j] = t.choose(0, span);
      for (int i = 0; i < ns; ++i)
        for (int j = 0; j < nd; ++j) {
          ll dx = std::abs(sx[i] - cx[j]), dy = std::abs(sy[i] - cy[j]);
          ll v;
          switch (norm % 3) {
            case 0: v = dx + dy; break;
            case 1: v = (ll)std::llround(std::sqrt((double)(dx * dx + dy * dy))); break;
            default: v = std::max(dx, dy); break;
          }
          if (norm >= 3) v = v * v;
          in.icost[i][j] = (int)std::min<ll>(v, maxc);
        }
      break;
    }
    case 1: {  // few distinct values: many ties
      in.costClass = "ties";
      int k = t.choose(1, 3);
      for (int i = 0; i < ns; ++i)
        for (int j = 0; j < nd; ++j) in.icost[i][j] = (int)(t.next() % (k + 1));
      break;
    }
    case 2:
      in.costClass = "zero";
      break;
    case 3: {  // large spread up to the documented bound
      in.costClass = "large";
      for (int i = 0; i < ns; ++i)
        for (int j = 0; j < nd; ++j) {
          uint32_t v = t.next();
          in.icost[i][j] = (v & 1) ? (int)((v >> 1) % ((uint32_t)maxc + 1)) : (int)((v >> 1) % 100);
        }
      break;
    }
    case 4: {  // signed costs within the bound
      in.costClass = "signed";
      for (int i = 0; i < ns; ++i)
        for (int j = 0; j < nd; ++j) {
          uint32_t v = t.next();
          int m = (int)((v >> 1) % 1000);
          in.icost[i][j] = (v & 1) ? -m : m;
        }
      break;
    }
    default: {  // float matrix through the scaling constructor
      in.costClass = "float";
      in.isFloat = true;
      in.fcost.assign(ns, std::vector<float>(nd, 0.f));
      int fcls = t.weighted({3, 2, 1});
      for (int i = 0; i < ns; ++i)
        for (int j = 0; j < nd; ++j) {
          uint32_t v = t.next();
          float f;
          if (fcls == 0)
            f = (float)(v % 1000) * 0.37f;
          else if (fcls == 1)
            f = (float)(v % 7);
          else
            f = std::ldexp((float)(v % 1024), (int)((v >> 10) % 40) - 20);
          in.fcost[i][j] = f;
        }
      break;
    }
  }
  // decided last: huge, nearly uniform capacities and demands (the shape the density legalizer
  // produces for a few macros over equal bins): remainders of 1..3 units next to quantities of 1e9
  if (t.next() % 4 == 1) {
    ll C = 1000000 + (ll)(t.next() % 1070000000u);
    ll totC = 0, totD = 0;
    for (int i = 0; i < ns; ++i) in.cap[i] = C + (ll)(t.next() % 3), totC += in.cap[i];
    double ratio = 0.7 + (double)(t.next() % 76) / 100.0;
    ll D = std::max<ll>(1, std::min<ll>((ll)((double)totC * ratio / nd), 2147483000LL));
    for (int j = 0; j < nd; ++j) in.dem[j] = D + (ll)(t.next() % 3), totD += in.dem[j];
    in.needIncrease = totD > totC;
    in.capClass = in.needIncrease ? "near-uniform huge, short+increaseCapacity" : "near-uniform huge, slack";
  }
  return in;
}
}  // namespace

bool prop(Tape &t, Report &R) {
  Inst in = decode(t, R.thorough());
  // decided last: what happened to the solver object before the judged solve()
  in.history = t.weighted({3, 1, 1, 1});
  in.histSink = (int)(t.next() % 16);
  static const char *hn[] = {"history:none", "history:solve-twice", "history:setAssignment-then-solve", "history:solve-setAssignment-solve"};
  R.classify(hn[in.history]);
  R.classify("cost:" + in.costClass);
  R.classify("capacity:" + in.capClass);
  R.classify(in.cap.size() == 1 ? "sinks:1" : in.cap.size() == 2 ? "sinks:2"
             : in.cap.size() <= 6 ? "sinks:3-6" : "sinks:7-16");
  R.classify(in.dem.size() <= 6 ? "sources:1-6" : in.dem.size() <= 40 ? "sources:7-40" : "sources:41+");
  bool nt;
  if (!judge(in, R, false, 0, nt)) return false;
  if (nt) {
    R.classify("nontrivial");
    Hasher h;
    h.addv(in.cap).addv(in.dem);
    for (auto &r : in.icost) h.addv(r);
    for (auto &r : in.fcost)
      for (float f : r) h.addd(f);
    R.nontrivial(h.h, [&] { return in.json(); });
  }
  return true;
}

// Exhaustive: sinks x sources in {1..3}x{1..3}, demands 1..2, capacities 1..3
// (feasible ones), costs in {0,1,2}; brute force over all plans; every 8th
// instance also through LEMON to validate that oracle.
bool exhaustive(Report &R, int shard, int nshards, Tape &failTape) {
  long long idx = 0;
  for (int ns = 1; ns <= 3; ++ns)
    for (int nd = 1; nd <= 3; ++nd) {
      int ncost = ns * nd;
      long long costCombos = 1;
      for (int k = 0; k < ncost; ++k) costCombos *= 3;
      long long demCombos = 1 << nd, capCombos = 1;
      for (int k = 0; k < ns; ++k) capCombos *= 3;
      for (long long cc = 0; cc < costCombos; ++cc) {
        if ((idx++) % nshards != shard) continue;
        Inst in;
        in.costClass = "exhaustive";
        in.icost.assign(ns, std::vector<int>(nd));
        long long v = cc;
        for (int i = 0; i < ns; ++i)
          for (int j = 0; j < nd; ++j) {
            in.icost[i][j] = (int)(v % 3);
            v /= 3;
          }
        for (long long dc = 0; dc < demCombos; ++dc) {
          in.dem.resize(nd);
          ll totD = 0;
          for (int j = 0; j < nd; ++j) {
            in.dem[j] = 1 + ((dc >> j) & 1);
            totD += in.dem[j];
          }
          for (long long pc = 0; pc < capCombos; ++pc) {
            in.cap.resize(ns);
            ll totC = 0;
            long long w = pc;
            for (int i = 0; i < ns; ++i) {
              in.cap[i] = 1 + (w % 3);
              w /= 3;
              totC += in.cap[i];
            }
            if (totC < totD) continue;
            ++R.exhaustiveStates;
    R.heartbeat();
            i128 opt = bruteOpt(in.cap, in.dem, in.icost);
            if ((R.exhaustiveStates & 7) == 0) {
              i128 lo = lemonOpt(in.cap, in.dem, in.icost);
              if (lo != opt) {
                R.fail("harness: LEMON oracle disagrees with brute force " + in.json());
                return false;
              }
            }
            bool nt;
            if (!judge(in, R, true, opt, nt)) {
              R.failReason += " instance " + in.json();
              R.sample("{\"failing\":" + in.json() + "}");
              // explicit tape
              failTape.w = {0xE7E7E7E7u, (uint32_t)ns, (uint32_t)nd};
              for (ll c : in.cap) failTape.w.push_back((uint32_t)c);
              for (ll d : in.dem) failTape.w.push_back((uint32_t)d);
              for (auto &r : in.icost)
                for (int c : r) failTape.w.push_back((uint32_t)c);
              return false;
            }
            if (nt) ++R.nontrivialCount;
          }
        }
      }
    }
  R.exhaustiveDone = true;
  R.sample("{\"exhaustive\":\"sinks 1..3 x sources 1..3, demands 1..2, capacities 1..3 (feasible), costs 0..2\"}");
  return true;
}
}  // namespace verif
