// C01 — legalization returns a legal placement or fails loudly.
#include "gen_circuit.hpp"

using namespace coloquinte;

namespace verif {
const char *propId() { return "C01"; }

bool prop(Tape &t, Report &R) {
  GenOpts o;
  if (R.thorough()) o.maxCells = 60, o.maxLevels = 16;
  CircuitSpec s = genCircuit(t, o);
  if (t.flip(1, 6)) {
    // a legal start must stay acceptable too
    CircuitSpec s2 = s;
    bool rowHighOnly = true;
    for (auto &c : s2.cells)
      if (!c.fixed && s2.placedH(c) != s2.rowHeight) rowHighOnly = false;
    if (rowHighOnly && packLegal(s2, t) && s2.nbMovable() > 0) s = s2;
  }
  ParamOpts po;
  ColoquinteParameters params = genParams(t, po, &s.labels);
  for (auto &l : s.labels) R.classify(l);
  if (s.nbMovable() == 0) {
    R.discard("no movable cell");
    return true;
  }
  Circuit c = s.build();
  Frame before = snap(c);

  // trivial feasibility (C01, last clause), from the spec alone
  std::vector<FreeSeg> segs = specFreeSegments(s);
  long long freeW = 0, sumW = 0, maxW = 0;
  for (auto &sg : segs) freeW += sg.maxX - sg.minX;
  bool rowHigh = true, unrestricted = true, positive = true;
  int movable = 0;
  bool multiRow = false, outside = false;
  long long aMinX = LLONG_MAX, aMaxX = LLONG_MIN, aMinY = LLONG_MAX, aMaxY = LLONG_MIN;
  for (auto &r : s.rows) {
    aMinX = std::min<long long>(aMinX, r.minX), aMaxX = std::max<long long>(aMaxX, r.maxX);
    aMinY = std::min<long long>(aMinY, r.minY), aMaxY = std::max<long long>(aMaxY, r.maxY);
  }
  long long movArea = 0;
  for (auto &cs : s.cells) {
    if (cs.fixed) continue;
    ++movable;
    long long pw = s.placedW(cs), ph = s.placedH(cs);
    if (ph != s.rowHeight) rowHigh = false, multiRow = true;
    if (cs.polarity == (int)CellRowPolarity::NW || cs.polarity == (int)CellRowPolarity::SE) unrestricted = false;
    if (pw <= 0) positive = false;
    sumW += pw;
    maxW = std::max(maxW, pw);
    movArea += pw * ph;
    if (cs.x < aMinX || cs.x + pw > aMaxX || cs.y < aMinY || cs.y + ph > aMaxY) outside = true;
  }
  bool trivial = rowHigh && unrestricted && positive && sumW <= freeW - (long long)segs.size() * maxW;
  if (trivial) R.classify("trivially-feasible");

  bool threw = false;
  std::string what;
  try {
    c.legalize(params);
  } catch (const std::exception &e) {
    threw = true;
    what = e.what();
  } catch (...) {
    return R.fail("legalize threw something that is not a std::exception");
  }
  Frame after = snap(c);
  if (threw) {
    R.classify("outcome:throws");
    for (auto &l : s.labels)
      if (l.rfind("util:", 0) == 0) R.classify("throws|" + l);
    R.classify(multiRow ? "throws|has-multi-row-cells" : "throws|row-high-only");
    if (!unrestricted) R.classify("throws|has-NW/SE-cells");
    if (trivial)
      return R.fail("legalize failed on a trivially feasible circuit (" + what + ") " + s.json());
    std::string d = diffFrame(before, after, false, true);
    if (!d.empty())
      return R.fail("legalize threw (" + what + ") but left a modified placement: " + d + " " + s.json());
  } else {
    R.classify("outcome:returns");
    std::string d = diffFrame(before, after, true, false);
    if (!d.empty()) return R.fail("legalize changed more than movable positions: " + d);
    std::string e = legalityError(c);
    if (!e.empty()) return R.fail("illegal placement returned: " + e + " " + s.json());
  }
  // non-trivial by the stated rule
  bool obstructed = false, split = s.labels.count("rows:split") != 0;
  for (auto &l : s.labels)
    if (l == "fixed:obstruction-inside" || l == "fixed:obstruction-partial" || l == "fixed:obstruction-enclosing") obstructed = true;
  long long freeArea = freeW * s.rowHeight;
  bool dense = freeArea > 0 && movArea * 10 >= freeArea * 8;
  if (movable >= 2 && (obstructed || split || multiRow || dense || outside))
    R.nontrivial(s.hash(), [&] { return s.json(24); });
  return true;
}

bool exhaustive(Report &, int, int, Tape &) { return true; }
}  // namespace verif
