// C15 — free row space = row minus every column range touched by an obstacle.
// Oracle: interval sweep over blocked column ranges (oracles.hpp), no
// boost::polygon.
#include <sstream>

#include "evidence.hpp"
#include "oracles.hpp"

using namespace coloquinte;

namespace verif {
const char *propId() { return "C15"; }

namespace {
constexpr uint32_t kExplicit = 0xE7E7E7E7u;

std::string rectJson(const Rectangle &r) {
  std::ostringstream s;
  s << "[" << r.minX << "," << r.maxX << "," << r.minY << "," << r.maxY << "]";
  return s.str();
}

/// Compare the library's result for one row with the oracle.
std::string judgeRow(const Row &row, const std::vector<Rectangle> &obs,
                     const std::vector<Row> &got) {
  std::vector<Seg> want = freeSegments(row, obs);
  std::vector<Row> g = got;
  std::sort(g.begin(), g.end(),
            [](const Row &a, const Row &b) { return a.minX < b.minX; });
  std::ostringstream s;
  for (size_t i = 0; i < g.size(); ++i) {
    if (g[i].minY != row.minY || g[i].maxY != row.maxY) {
      s << "segment " << rectJson(g[i]) << " does not have the row's y extent";
      return s.str();
    }
    if (g[i].minX >= g[i].maxX) {
      s << "empty segment " << rectJson(g[i]);
      return s.str();
    }
    if (g[i].minX < row.minX || g[i].maxX > row.maxX) {
      s << "segment " << rectJson(g[i]) << " outside the row";
      return s.str();
    }
    if (g[i].orientation != row.orientation) {
      s << "segment " << rectJson(g[i]) << " lost the row orientation";
      return s.str();
    }
    if (i > 0 && g[i - 1].maxX > g[i].minX) {
      s << "segments " << rectJson(g[i - 1]) << " and " << rectJson(g[i]) << " overlap";
      return s.str();
    }
  }
  // merge touching returned segments (maximality is not required) and compare
  // the covered column set with the oracle's
  std::vector<Seg> merged;
  for (const Row &r : g) {
    if (!merged.empty() && merged.back().maxX == r.minX)
      merged.back().maxX = r.maxX;
    else
      merged.push_back({r.minX, r.maxX});
  }
  size_t i = 0, j = 0;
  while (i < merged.size() || j < want.size()) {
    if (i < merged.size() && j < want.size() && merged[i].minX == want[j].minX &&
        merged[i].maxX == want[j].maxX) {
      ++i, ++j;
      continue;
    }
    // first difference
    long long gm = i < merged.size() ? merged[i].minX : LLONG_MAX;
    long long wm = j < want.size() ? want[j].minX : LLONG_MAX;
    if (gm < wm || (gm == wm && merged[i].maxX > want[j].maxX)) {
      s << "returned free space [" << merged[i].minX << "," << merged[i].maxX
        << ") contains a column blocked by an obstruction";
    } else {
      s << "obstruction-free columns [" << want[j].minX << "," << want[j].maxX
        << ") are not fully covered by the returned segments";
    }
    return s.str();
  }
  return "";
}

bool nontrivialCase(const Row &row, const std::vector<Rectangle> &obs) {
  std::vector<std::pair<long long, long long>> bl;
  for (const Rectangle &o : obs) {
    if (o.maxX <= o.minX || o.maxY <= o.minY) continue;
    if (o.maxY <= row.minY || o.minY >= row.maxY) continue;
    long long a = std::max(o.minX, row.minX), b = std::min(o.maxX, row.maxX);
    if (a >= b) continue;
    if (o.minY > row.minY || o.maxY < row.maxY) return true;  // partial height
    bl.push_back({a, b});
  }
  for (size_t i = 0; i < bl.size(); ++i)
    for (size_t j = 0; j < bl.size(); ++j)
      if (i != j && bl[i].second == bl[j].first) return true;  // touching
  return false;
}

std::string caseJson(const Row &row, const std::vector<Rectangle> &obs) {
  std::ostringstream s;
  s << "{\"row\":" << rectJson(row) << ",\"orientation\":" << (int)row.orientation << ",\"obstacles\":[";
  for (size_t i = 0; i < obs.size(); ++i) s << (i ? "," : "") << rectJson(obs[i]);
  s << "]}";
  return s.str();
}

bool runRowCase(const Row &row, const std::vector<Rectangle> &obs, Report &R, bool &nt) {
  std::vector<Row> got;
  try {
    got = row.freespace(obs);
  } catch (const std::exception &e) {
    return R.fail(std::string("exception: ") + e.what() + " " + caseJson(row, obs));
  }
  std::string err = judgeRow(row, obs, got);
  if (!err.empty()) return R.fail(err + " " + caseJson(row, obs));
  nt = nontrivialCase(row, obs);
  return true;
}

Rectangle genObstacle(Tape &t, const Row &row, long long span) {
  int cls = t.weighted({3, 3, 2, 2, 2, 2, 1});
  long long rw = row.maxX - row.minX, rh = row.maxY - row.minY;
  auto rx = [&](long long lo, long long hi) { return (int)t.range(lo, hi); };
  switch (cls) {
    case 0: {  // inside, full height or more
      int a = rx(row.minX, row.maxX - 1), b = rx(a + 1, row.maxX);
      return Rectangle(a, b, row.minY - (int)t.range(0, rh), row.maxY + (int)t.range(0, rh));
    }
    case 1: {  // partial height: cuts the top or the bottom, or strictly inside
      int a = rx(row.minX - 2, row.maxX - 1), b = rx(a + 1, row.maxX + 2);
      int k = t.choose(0, 2);
      int y0 = k == 0 ? row.minY - (int)t.range(0, rh) : rx(row.minY + 1, row.maxY - 1 > row.minY ? row.maxY - 1 : row.minY + 1);
      int y1 = k == 1 ? row.maxY + (int)t.range(0, rh) : rx(std::max(y0 + 1, row.minY + 1), std::max<long long>(y0 + 1, row.maxY - 1));
      if (k == 0) y1 = rx(row.minY + 1, std::max<long long>(row.minY + 1, row.maxY - 1));
      return Rectangle(a, b, y0, y1);
    }
    case 2: {  // touching an edge of the row
      int side = t.choose(0, 3);
      if (side == 0) return Rectangle(row.minX - (int)t.range(1, 5), row.minX, row.minY, row.maxY);
      if (side == 1) return Rectangle(row.maxX, row.maxX + (int)t.range(1, 5), row.minY, row.maxY);
      int a = rx(row.minX, row.maxX - 1), b = rx(a + 1, row.maxX);
      if (side == 2) return Rectangle(a, b, row.maxY, row.maxY + (int)t.range(1, 5));
      return Rectangle(a, b, row.minY - (int)t.range(1, 5), row.minY);
    }
    case 3:  // enclosing
      return Rectangle(row.minX - (int)t.range(0, 3), row.maxX + (int)t.range(0, 3),
                       row.minY - (int)t.range(0, 3), row.maxY + (int)t.range(0, 3));
    case 4: {  // degenerate
      int a = rx(row.minX - 1, row.maxX + 1), y = rx(row.minY - 1, row.maxY + 1);
      int k = t.choose(0, 2);
      if (k == 0) return Rectangle(a, a, row.minY, row.maxY);
      if (k == 1) return Rectangle(a, a + (int)t.range(1, std::max<long long>(1, rw)), y, y);
      return Rectangle(a, a, y, y);
    }
    case 5: {  // sticking out on the left or right
      if (t.flip()) return Rectangle(row.minX - (int)t.range(1, rw + 1), rx(row.minX + 1, row.maxX), row.minY, row.maxY);
      return Rectangle(rx(row.minX, row.maxX - 1), row.maxX + (int)t.range(1, rw + 1), row.minY, row.maxY);
    }
    default: {  // anywhere
      int a = rx(row.minX - span, row.maxX + span), b = rx(a, a + span);
      int y0 = rx(row.minY - span, row.maxY + span), y1 = rx(y0, y0 + span);
      return Rectangle(a, b, y0, y1);
    }
  }
}
}  // namespace

bool prop(Tape &t, Report &R) {
  if (!t.w.empty() && t.w[0] == kExplicit) {
    t.next();
    auto iv = [&]() { return (int)(int32_t)t.next(); };
    int x0 = iv(), x1 = iv(), y0 = iv(), y1 = iv();
    if (x1 <= x0) x1 = x0 + 1;
    if (y1 <= y0) y1 = y0 + 1;
    Row row(x0, x1, y0, y1, (CellOrientation)(t.next() % 8));
    int k = (int)(t.next() % 8);
    std::vector<Rectangle> obs;
    for (int i = 0; i < k; ++i) {
      int a = iv(), b = iv(), c = iv(), d = iv();
      if (b < a) b = a;
      if (d < c) d = c;
      obs.emplace_back(a, b, c, d);
    }
    bool nt;
    return runRowCase(row, obs, R, nt);
  }
  int mode = t.weighted({3, 2});
  int scale = t.weighted({5, 2, 2});
  long long C = scale == 0 ? 20 : scale == 1 ? 2000 : (1LL << 22);
  if (mode == 0) {
    R.classify("mode:row.freespace");
    int rh = (int)t.range(1, scale == 0 ? 4 : scale == 1 ? 12 : 4000);
    int rw = (int)t.range(1, scale == 0 ? 12 : scale == 1 ? 400 : 200000);
    int x0 = (int)t.range(-C, C - rw), y0 = (int)t.range(-C, C - rh);
    if (t.flip(1, 3)) x0 = 0, y0 = 0;
    static const CellOrientation ro[] = {CellOrientation::N, CellOrientation::FS, CellOrientation::S, CellOrientation::FN};
    Row row(x0, x0 + rw, y0, y0 + rh, ro[t.choose(0, 3)]);
    int k = t.choose(0, 6);
    std::vector<Rectangle> obs;
    for (int i = 0; i < k; ++i) obs.push_back(genObstacle(t, row, std::max<long long>(4, rw)));
    R.classify("obstacles:" + std::to_string(k));
    bool nt = false;
    if (!runRowCase(row, obs, R, nt)) return false;
    if (nt) {
      Hasher h;
      h.add(row.minX).add(row.maxX).add(row.minY).add(row.maxY);
      for (auto &o : obs) h.add(o.minX).add(o.maxX).add(o.minY).add(o.maxY);
      R.classify("nontrivial");
      R.nontrivial(h.h, [&] { return caseJson(row, obs); });
    }
    return true;
  }
  // whole circuit through computeRows(extra)
  R.classify("mode:circuit.computeRows");
  int rh = (int)t.range(1, scale == 0 ? 3 : 12);
  int nlev = t.choose(1, 4);
  int rw = (int)t.range(2, scale == 0 ? 12 : 300);
  int x0 = (int)t.range(-C / 2, C / 2), y0 = (int)t.range(-C / 2, C / 2);
  std::vector<Row> rows;
  static const CellOrientation ro[] = {CellOrientation::N, CellOrientation::FS, CellOrientation::S, CellOrientation::FN};
  int yy = y0;
  for (int l = 0; l < nlev; ++l) {
    int nseg = t.weighted({3, 1});
    if (l > 0) yy += rh + (t.flip(1, 4) ? (int)t.range(1, 2 * rh) : 0);
    CellOrientation o = ro[t.choose(0, 3)];
    if (nseg == 0) {
      rows.emplace_back(x0, x0 + rw, yy, yy + rh, o);
    } else {
      int cut = (int)t.range(1, rw - 1 > 1 ? rw - 1 : 1);
      rows.emplace_back(x0, x0 + cut, yy, yy + rh, o);
      if (cut + 1 < rw) rows.emplace_back(x0 + cut + 1, x0 + rw, yy, yy + rh, o);
    }
  }
  int n = t.choose(1, 8);
  Circuit c(n);
  std::vector<int> w(n), h(n), x(n), y(n);
  std::vector<bool> fx(n), ob(n);
  std::vector<CellOrientation> ori(n);
  Row bbox(x0, x0 + rw, y0, y0 + nlev * rh * 2, CellOrientation::N);
  for (int i = 0; i < n; ++i) {
    Rectangle r = genObstacle(t, rows[t.choose(0, (int)rows.size() - 1)], std::max(4, rw));
    ori[i] = (CellOrientation)t.choose(0, 7);
    bool turn = refIsTurn(ori[i]);
    int pw = r.maxX - r.minX, ph = r.maxY - r.minY;
    w[i] = turn ? ph : pw;
    h[i] = turn ? pw : ph;
    x[i] = r.minX;
    y[i] = r.minY;
    fx[i] = t.flip(3, 4);
    ob[i] = t.flip(3, 4);
  }
  c.setCellWidth(w);
  c.setCellHeight(h);
  c.setCellX(x);
  c.setCellY(y);
  c.setCellOrientation(ori);
  c.setCellIsFixed(fx);
  c.setCellIsObstruction(ob);
  c.setRows(rows);
  bool nt = false;
  int ignored = 0;
  std::vector<int> hExtra;
  size_t nExtra = 0;
  auto judgeNow = [&](const char *when) -> bool {
  int ne = t.weighted({3, 1, 1});
  std::vector<Rectangle> extra;
  for (int i = 0; i < ne; ++i) extra.push_back(genObstacle(t, rows[t.choose(0, (int)rows.size() - 1)], std::max(4, rw)));
  std::vector<Row> got;
  try {
    got = c.computeRows(extra);
  } catch (const std::exception &e) {
    return R.fail(std::string("exception: ") + e.what());
  }
  std::vector<Rectangle> obs = fixedObstacles(c);
  obs.insert(obs.end(), extra.begin(), extra.end());
  // every returned segment belongs to exactly one input row (rows are disjoint)
  std::vector<std::vector<Row>> per(rows.size());
  for (const Row &g : got) {
    int owner = -1;
    for (size_t r = 0; r < rows.size(); ++r)
      if (g.minY == rows[r].minY && g.minX >= rows[r].minX && g.maxX <= rows[r].maxX) owner = (int)r;
    if (owner < 0) return R.fail("computeRows returned a segment " + rectJson(g) + " inside no row");
    per[owner].push_back(g);
  }
  ignored = 0;
  for (int i = 0; i < n; ++i)
    if (!(fx[i] && ob[i])) ++ignored;
  for (size_t r = 0; r < rows.size(); ++r) {
    std::string err = judgeRow(rows[r], obs, per[r]);
    if (!err.empty()) {
      std::ostringstream s;
      s << when << err << " row " << rectJson(rows[r]) << " cells:";
      for (int i = 0; i < n; ++i)
        s << " {" << x[i] << "," << y[i] << " " << w[i] << "x" << h[i] << " o" << (int)ori[i]
          << (fx[i] ? " fixed" : " movable") << (ob[i] ? " obs" : " nonobs") << "}";
      return R.fail(s.str());
    }
    nt |= nontrivialCase(rows[r], obs);
  }
  hExtra.clear();
  for (auto &o : extra) hExtra.push_back(o.minX), hExtra.push_back(o.maxX);
  nExtra = extra.size();
  return true;
  };
  std::vector<int> hExtra0;
  size_t nExtra0 = 0;
  if (!judgeNow("")) return false;
  hExtra0 = hExtra, nExtra0 = nExtra;
  if (ignored) R.classify("has-ignored-cells");
  if (nt && ignored) {
    Hasher hh;
    hh.addv(w).addv(h).addv(x).addv(y).add(x0).add(y0).add(rw).add(rh);
    hh.addv(hExtra0);
    R.classify("nontrivial");
    R.nontrivial(hh.h, [&] {
      std::ostringstream s;
      s << "{\"rows\":" << rows.size() << ",\"cells\":" << n << ",\"ignored_cells\":" << ignored
        << ",\"extra_obstacles\":" << nExtra0 << ",\"first_row\":" << rectJson(rows[0]) << "}";
      return s.str();
    });
  }
  // object history (decided last): the same Circuit object is modified through its
  // public setters and asked again; the answer must match the new contents
  int steps = t.weighted({2, 1, 1, 1});
  for (int st = 0; st < steps; ++st) {
    int route = t.choose(0, 5);
    int i = t.choose(0, n - 1);
    Rectangle r = genObstacle(t, rows[t.choose(0, (int)rows.size() - 1)], std::max(4, rw));
    static const char *rn[] = {"setCellX/Y", "setSolution", "setCellOrientation", "setCellIsFixed/IsObstruction", "setCellWidth/Height", "setRows"};
    switch (route) {
      case 0:
        x[i] = r.minX, y[i] = r.minY;
        c.setCellX(x), c.setCellY(y);
        break;
      case 1: {
        x[i] = r.minX, y[i] = r.minY, ori[i] = (CellOrientation)t.choose(0, 7);
        PlacementSolution sol;
        for (int k2 = 0; k2 < n; ++k2) sol.push_back(CellPlacement(x[k2], y[k2], ori[k2]));
        c.setSolution(sol);
        break;
      }
      case 2:
        ori[i] = (CellOrientation)t.choose(0, 7);
        c.setCellOrientation(ori);
        break;
      case 3:
        fx[i] = !fx[i];
        if (t.flip()) ob[i] = !ob[i];
        c.setCellIsFixed(fx), c.setCellIsObstruction(ob);
        break;
      case 4:
        w[i] = std::max(0, r.maxX - r.minX), h[i] = std::max(0, r.maxY - r.minY);
        c.setCellWidth(w), c.setCellHeight(h);
        break;
      default: {
        // rows may be handed over in any order
        int how = t.choose(0, 2);
        if (rows.size() > 1 && how == 0) std::reverse(rows.begin(), rows.end());
        else if (rows.size() > 1 && how == 1) std::rotate(rows.begin(), rows.begin() + 1, rows.end());
        else if (rows.size() > 1) rows.pop_back();
        else rows[0] = Row(rows[0].minX, rows[0].maxX + 1, rows[0].minY, rows[0].maxY, rows[0].orientation);
        c.setRows(rows);
      }
    }
    R.classify(std::string("history:") + rn[route]);
    std::string when = std::string("after a ") + rn[route] + " call on a circuit whose rows were computed before: ";
    if (!judgeNow(when.c_str())) return false;
  }
  return true;
}

// Exhaustive: row [0,4)x[0,2); rectangles with corners on the grid
// [-1,5]x[-1,3] including degenerate ones (420); all singles and unordered
// pairs (quick), all unordered triples (thorough).
bool exhaustive(Report &R, int shard, int nshards, Tape &failTape) {
  std::vector<Rectangle> all;
  for (int a = -1; a <= 5; ++a)
    for (int b = a; b <= 5; ++b)
      for (int c = -1; c <= 3; ++c)
        for (int d = c; d <= 3; ++d) all.emplace_back(a, b, c, d);
  Row row(0, 4, 0, 2, CellOrientation::FS);
  long long idx = 0;
  auto fail = [&](const std::vector<Rectangle> &obs) {
    failTape.w = {kExplicit, 0u, 4u, 0u, 2u, (uint32_t)CellOrientation::FS, (uint32_t)obs.size()};
    for (auto &o : obs) {
      failTape.w.push_back((uint32_t)o.minX);
      failTape.w.push_back((uint32_t)o.maxX);
      failTape.w.push_back((uint32_t)o.minY);
      failTape.w.push_back((uint32_t)o.maxY);
    }
    return false;
  };
  int N = all.size();
  bool triples = R.thorough();
  for (int i = 0; i < N; ++i) {
    if ((idx++) % nshards != shard) continue;
    bool nt;
    std::vector<Rectangle> obs = {all[i]};
    ++R.exhaustiveStates;
    if (!runRowCase(row, obs, R, nt)) return fail(obs);
    if (nt) ++R.nontrivialCount;
    for (int j = i; j < N; ++j) {
      obs = {all[i], all[j]};
      ++R.exhaustiveStates;
      R.heartbeat();
      if (!runRowCase(row, obs, R, nt)) return fail(obs);
      if (nt) ++R.nontrivialCount;
      if (!triples) continue;
      for (int k = j; k < N; ++k) {
        obs = {all[i], all[j], all[k]};
        ++R.exhaustiveStates;
        if (!runRowCase(row, obs, R, nt)) return fail(obs);
        if (nt) ++R.nontrivialCount;
      }
    }
  }
  R.exhaustiveDone = true;
  R.sample(std::string("{\"exhaustive\":\"row [0,4)x[0,2); all 420 rectangles with corners on [-1,5]x[-1,3] (degenerate included): singles, unordered pairs") +
           (triples ? ", unordered triples" : "") + "\"}");
  return true;
}
}  // namespace verif
