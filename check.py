#!/usr/bin/env python3
"""Driver for the property-based / fuzzing checks of Coloquinte/PlaceRoute.

  ./check.py <ID> [--tier quick|thorough] [--seed N]   run the check of a property
  ./check.py <ID> --replay <tape> [--show]             replay one saved tape
  ./check.py build [ID...]                             warm the build cache
  ./check.py selftest                                  harness self-tests

Exit 0: the property held on everything explored (KNOWN-FINDING lines may be
printed).  Exit 1: a line `VIOLATION property=<ID> replay=<path>` was printed.
Everything random is a function of VERIF_SEED (default 1) and the sources.
"""
import concurrent.futures as cf
import fcntl
import hashlib
import json
import os
import re
import shutil
import struct
import subprocess
import sys
import time

VERIF = os.path.dirname(os.path.abspath(__file__))
REPO = os.environ.get("VERIF_REPO", "/repo")
BUILD = os.environ.get("VERIF_BUILD", os.path.join(VERIF, "build"))
OUTDIR = os.environ.get("VERIF_OUT_DIR", VERIF)  # evidence/ and violations/ go here
HARNESS = os.path.join(VERIF, "harness")
NCPU = int(os.environ.get("VERIF_JOBS", str(os.cpu_count() or 16)))
CXX = "clang++"
GUARD = "COLOQUINTE_VERIF"

LIB_SOURCES = [
    "coloquinte.cpp", "parameters.cpp", "export.cpp",
    "place_global/net_model.cpp", "place_global/density_legalizer.cpp",
    "place_global/density_grid.cpp", "place_global/place_global.cpp",
    "place_detailed/legalizer.cpp", "place_detailed/abacus_legalizer.cpp",
    "place_detailed/tetris_legalizer.cpp", "place_detailed/row_legalizer.cpp",
    "place_detailed/place_detailed.cpp", "place_detailed/detailed_placement.cpp",
    "place_detailed/incr_net_model.cpp", "place_detailed/row_neighbourhood.cpp",
    "place_global/transportation.cpp", "place_global/transportation_1d.cpp",
]

COMMON = ["-std=gnu++17", "-g", "-O1", "-D" + GUARD, "-Wno-everything",
          "-I" + os.path.join(REPO, "src"), "-I/usr/include/eigen3", "-I" + HARNESS]
SAN = ["-fsanitize=address,undefined,float-cast-overflow",
       "-fno-sanitize-recover=undefined,float-cast-overflow",
       "-fno-omit-frame-pointer"]
VARIANTS = {
    "san": SAN + ["-fsanitize=fuzzer-no-link"],
    "sannd": SAN + ["-fsanitize=fuzzer-no-link", "-DNDEBUG"],
    "tsan": ["-fsanitize=thread", "-fno-omit-frame-pointer"],
}
LINK = {
    "san": SAN,
    "sannd": SAN,
    "tsan": ["-fsanitize=thread"],
}
LIBS = ["-llemon", "-lpthread"]

SAN_ENV = {
    "ASAN_OPTIONS": "detect_leaks=0:abort_on_error=1:allocator_may_return_null=1:handle_abort=1:malloc_context_size=4:quarantine_size_mb=64",
    "UBSAN_OPTIONS": "print_stacktrace=1:halt_on_error=1",
    "TSAN_OPTIONS": "halt_on_error=1:second_deadlock_stack=1",
}

# ----------------------------------------------------------------------------
# Per-property configuration.  rc = (workers, max_success per worker, max_size,
# tape scale); exh = number of shards; fuzz = (jobs, runs per job, max_len).
# ----------------------------------------------------------------------------
PROPS = {}


def P(pid, **kw):
    kw.setdefault("variants", ["san"])
    kw.setdefault("level", "exploration")
    kw.setdefault("exh", {"quick": 0, "thorough": 0})
    kw.setdefault("fuzz", {"quick": None, "thorough": None})
    kw.setdefault("budget", {"quick": 120, "thorough": 900})
    kw.setdefault("assumptions", [])
    PROPS[pid] = kw


P("C12",
  rc={"quick": (8, 40000, 100, 4), "thorough": (12, 500000, 100, 4)},
  exh={"quick": 8, "thorough": 16},
  fuzz={"quick": None, "thorough": (4, 400000, 1024)},
  rule="rapidcheck tapes decoded into a segment [b,e) and a history of fitting push(w,t) "
       "interleaved with arbitrary fitting getCost queries (scales: small / medium / 2^22); "
       "non-trivial = some cell is displaced from its target (a conflict or clamp happened); "
       "distinct = hash of (b,e,pushes). Exhaustive part: every instance with segment length "
       "<= 7 (8 thorough), widths 1..3, <= 4 cells, targets in [-3,len+3], each enumerated "
       "once (so distinct by construction) and judged against a brute-force DP and PAV. A quarter of the cases run on a reused object (1..4 pushes, then clear()).",
  assumptions=["push(w,t) is only called when remainingSpace() >= w (the guard of its only caller)",
               "widths >= 1"])


P("C13",
  rc={"quick": (8, 30000, 100, 8), "thorough": (12, 400000, 100, 8)},
  exh={"quick": 8, "thorough": 8},
  fuzz={"quick": None, "thorough": (4, 300000, 2048)},
  rule="tapes decoded into (capacities, demands, cost matrix): 1..16 sinks, 1..80 (200 thorough) sources, "
       "demands 1..50 or up to 1e9, capacity balanced / with slack / short then increaseCapacity(), costs "
       "distance-like (6 norms), few distinct values, zero, large (to INT_MAX/(4*sinks)), signed, or float "
       "through the scaling constructor; optimum from LEMON NetworkSimplex<long long>. non-trivial = the "
       "capacity-blind cheapest assignment is infeasible (optimum > sum demand*min cost), distinct = hash of "
       "the instance. Exhaustive part: all instances with 1..3 sinks x 1..3 sources, demands 1..2, capacities "
       "1..3 (total capacity >= total demand), costs 0..2, against brute force over all plans. Half of the cases solve on an object with a history: an earlier solve(), an initial setAssignment() of every source to one sink, or both. A quarter of the cases use huge, nearly uniform capacities and demands (remainders of 1..3 units next to quantities of 1e6..1e9). Plans built through the integer constructor are judged against the caller's costs; for float costs the stored representation must keep every per-source cost difference between sinks.",
  assumptions=["integer costs satisfy |c| <= INT_MAX/(4*nbSinks), the bound the float constructor's scaling establishes",
               "total demand <= total capacity when solve() is called (after increaseCapacity() where needed)"])


P("C14",
  rc={"quick": (8, 40000, 100, 4), "thorough": (12, 500000, 100, 4)},
  exh={"quick": 8, "thorough": 8},
  fuzz={"quick": None, "thorough": (4, 400000, 1024)},
  rule="tapes decoded into (source positions, sink positions, supplies, demands): 1..30 sources (60 thorough), "
       "1..16 sinks (30), unsorted positions with duplicates in [0,20] / [0,5000] / [0,1e8], supplies 0..5 or "
       "to 1e6, zero supplies and demands over-weighted, total supply <= total demand directly (exact or with "
       "slack) or through balanceDemand(); optimum from LEMON NetworkSimplex. non-trivial = the plan splits a "
       "source or a zero supply/demand is present; distinct = hash of the instance. Exhaustive part: 1..3 sources "
       "x 1..3 sinks, positions 0..3, supplies and demands 0..2, against brute force over all plans. Half of the cases vary the call sequence: assign() before solve(), both called twice (answers must repeat), balanceDemand() twice. A quarter of the cases scale all amounts so that the totals leave 32 bits; a sixth collapse the sinks onto 1..3 positions and extend them to 17..30.",
  assumptions=["at least one sink; the clause 'a sink of positive demand' is only required when some sink has positive demand"])


P("C19",
  rc={"quick": (8, 40000, 100, 2), "thorough": (12, 400000, 100, 2)},
  exh={"quick": 4, "thorough": 4},
  fuzz={"quick": None, "thorough": (4, 100000, 512)},
  rule="four generated modes: random 32-bit efforts through ColoquinteParameters and the six sub-parameter "
       "constructors; parameter sets with 0..3 fields driven just below/above a bound of an independent bounds "
       "table plus the cross-field rules (reopt sizes/overlaps, initial vs max steps, cost models), each rejected "
       "set then passed to placeGlobal/legalize/placeDetailed on a small circuit (must throw before any callback, "
       "circuit unchanged); every vector setter with a wrong length; addNet/setNets with inconsistent lengths or "
       "out-of-range cells. non-trivial = the input violates a documented range; distinct = hash of the violating "
       "input. Exhaustive part: efforts -16..32, every field x 8 probes (at the bounds and far from them: 0, -1, +-1e9) x efforts {1,5,9}, setters x lengths "
       "{0,n-1,n+1,2n} x n=1..6, net defects x positions x 6 out-of-range values.",
  assumptions=["boundary probes sit at bound +- 1e-3*max(1,|bound|) (half/double for bounds below 1e-3), never exactly on a real-valued bound; NaN is not probed (the parameter check does not reject it)",
               "sub-parameter constructors whose effort argument is unused may accept any effort; they must not invoke UB"])


P("C15",
  rc={"quick": (8, 40000, 100, 2), "thorough": (12, 400000, 100, 2)},
  exh={"quick": 8, "thorough": 16},
  budget={"quick": 120, "thorough": 1500},
  fuzz={"quick": None, "thorough": (2, 2000000, 4096)},
  rule="(a) Row::freespace on a generated row (3 coordinate scales up to 2^22, 4 orientations) and 0..6 obstacle "
       "rectangles drawn from classes inside / partial height / touching an edge / enclosing / degenerate / sticking "
       "out / anywhere; (b) Circuit::computeRows(extra) on 1..4 row levels (split rows, gaps) with 1..8 cells of any "
       "fixed x obstruction flag combination and any of the 8 orientations plus 0..2 extra obstacles. Oracle: sweep "
       "over blocked column ranges. non-trivial = an obstacle covers the row height only partially or two blocked "
       "ranges touch (for (b) additionally a movable or non-obstruction cell is present); distinct = hash of the case. "
       "Exhaustive part: row [0,4)x[0,2), all 420 grid rectangles on [-1,5]x[-1,3] incl. degenerate ones: every single "
       "and unordered pair (quick), every unordered triple (thorough). Circuit mode continues as a history: 0..3 further setter calls on the same object (setCellX/Y, setSolution, setCellOrientation, setCellIsFixed/IsObstruction, setCellWidth/Height, setRows), each followed by a judged computeRows.",
  assumptions=["obstacle rectangles have minX<=maxX and minY<=maxY (sizes are non-negative)",
               "maximality of the returned segments is not required, only the covered column set"])


P("C09",
  rc={"quick": (8, 30000, 100, 6), "thorough": (12, 400000, 100, 6)},
  exh={"quick": 2, "thorough": 2},
  fuzz={"quick": None, "thorough": (4, 300000, 2048)},
  rule="circuits of 1..12 cells (sizes 0..6 / 0..200 / 0..40000, coordinates to 30 / 5000 / 2^22, all eight "
       "orientations, fixed and movable) with 0..12 nets of degree 0..9 (repeated cells, pins inside, on the border "
       "and outside the outline) entered through addNet or setNets (with empty nets); Circuit::hpwl, placedWidth/"
       "Height, pinX/YOffset, isTurn compared with a 2x2-matrix reference; IncrNetModel x/y topologies over all "
       "cells or a tape-ordered subset compared with a from-scratch one-axis HPWL after construction and after each "
       "of 0..40 position updates. non-trivial = a net of degree >= 2 touches a rotated or mirrored cell and (no "
       "updates or some update changed a net bound); distinct = hash of the circuit, subset and update count. "
       "Exhaustive part: one cell (6 sizes) x 8 orientations x every pin offset in the outline +-1. At the 2^22 scale a quarter of the cases add 600..1800 far-reaching 2-3 pin nets (total wirelength beyond 32 bits).",
  assumptions=["position updates go to cells of the model, not to its fixed pseudo-cell",
               "|coordinates| <= 2^22 so that int arithmetic on pin positions cannot overflow"])


CIRCUIT_RULE = ("circuits constructed from a choice tape: scale (unit / decade / nanometre up to 2^22), 1..8 row levels "
                "(16 thorough) with gaps, split rows and three orientation patterns, 0..6 fixed cells (obstruction inside / "
                "partial / enclosing, outside, non-obstruction, zero-size terminal), 1..24 movable cells (60 thorough: single-row, "
                "multi-row, macros, all 8 orientations for cells without polarity, matched and mismatched polarities), "
                "utilisation sparse / tight / exactly full / over-full, starts spread / clustered / far outside / on obstructions / "
                "constructed legal, nets with pins inside, on and outside the outline, parameters drawn field by field from the "
                "range the parameter check accepts. ")

P("C01",
  exh={"quick": 8, "thorough": 16},
  rc={"quick": (12, 10000, 100, 8), "thorough": (14, 100000, 100, 16)},
  fuzz={"quick": None, "thorough": (2, 300000, 4096)},
  rule=CIRCUIT_RULE + "Oracle: geometric legality predicate over placed rectangles (independent free-space sweep), unchanged "
       "placement after a throw, must-return on the trivially feasible class. non-trivial = >= 2 movable cells and one of "
       "{obstruction intersecting a row, split row, multi-row cell, utilisation >= 80%, a start position outside the area}; "
       "distinct = hash of the circuit. Exhaustive part (small scope): four tiny row configurations (the fourth: two levels of two abutting segments) x {no obstruction, "
       "1x1 obstruction} x every combination of 1..2 (3 thorough, from a reduced option set) movable cells of 4 sizes x 3 "
       "polarities x 35 target positions x 2 ordering widths, each enumerated once. A third of the cases are judged a second time on a Circuit object that was legalized before with its fixed cells elsewhere and then set to the same contents through setCellX/Y/Orientation or setSolution; 1 case in 24 adds a large companion instance (up to 300 movable cells, 24 row levels). Row segments of one level may abut (gap 0); the enumerator has a fourth configuration with two levels of two abutting segments.",
  assumptions=["rows are uniform-height and pairwise disjoint by construction; movable cells have placed height a positive multiple of the row height"])


P("C11",
  exh={"quick": 8, "thorough": 16},
  rc={"quick": (12, 8000, 100, 8), "thorough": (14, 100000, 100, 16)},
  fuzz={"quick": None, "thorough": (2, 2000000, 4096)},
  rule=CIRCUIT_RULE + "Restricted to row-high movable cells and |v| < 2^20. The legal placement is either produced by "
       "legalize from the generated start or constructed by packing cells into free segments with tape-chosen gaps "
       "(gap 0 likely); legalize is then called again, possibly with other accepted ordering parameters, and every "
       "x/y/orientation must be unchanged. non-trivial = >= 3 movable cells with two touching in a row or one adjacent "
       "to an obstruction; distinct = hash of the circuit. Exhaustive part (small scope): three tiny row configurations x {no "
       "obstruction, 1x1 obstruction} x all combinations of 1..2 row-high cells (3 widths x 3 polarities x 35 targets) and all "
       "3-cell (4 thorough) combinations from a reduced set, legalized twice with orderingWidth pairs from {0.2,0.9}. Object histories: in a quarter of the cases every circuit of the case is not built fresh but reached on an object that was built with its fixed cells elsewhere, queried (computeRows, hpwl) and legalized, and then brought to the case's contents through setCellX/Y/Orientation or setSolution (same contents, other history).",
  assumptions=["designs with multi-row movable cells are outside the property"])


P("C04",
  rc={"quick": (12, 5000, 100, 8), "thorough": (14, 60000, 100, 16)},
  exh={"quick": 1, "thorough": 1},
  fuzz={"quick": None, "thorough": (2, 2000000, 4096)},
  rule=CIRCUIT_RULE + "60% of the movable cells carry a polarity (SAME/OPPOSITE on odd, NW/SE on even row counts, 10% "
       "deliberately mismatched). Oracle: the harness's own polarity table applied to the row at each cell's bottom edge, "
       "after legalize, inside every Detailed callback of placeDetailed and after it; cells without polarity must keep "
       "their orientation. non-trivial = a polarised cell ends on another row than the one closest to its start, or "
       "detailed placement moved a polarised cell to another row; distinct = hash of the circuit. Exhaustive part: "
       "cellOrientationInRow / oppositeRowOrientation over 5 polarities x 10 enum values. Object histories: in a quarter of the cases every circuit of the case is not built fresh but reached on an object that was built with its fixed cells elsewhere, queried (computeRows, hpwl) and legalized, and then brought to the case's contents through setCellX/Y/Orientation or setSolution (same contents, other history). Rows are handed to the circuit in generated, reversed, rotated or shuffled order; 1 case in 32 adds a large companion instance (up to 150 movable cells). Reordering over several rows is switched on in a third of the cases.",
  assumptions=["detailed.reorderingMaxNbCells <= 5: the reordering search is exponential in the window size (off by default) and a 7-cell window over 3 rows already exceeds the hang limit on the unchanged library", "segments that share a y share an orientation (by construction, as Circuit::report() requires)"])


P("C02",
  rc={"quick": (12, 2500, 100, 8), "thorough": (14, 40000, 100, 16)},
  exh={"quick": 4, "thorough": 16},
  budget={"quick": 150, "thorough": 1500},
  fuzz={"quick": None, "thorough": (2, 2000000, 4096)},
  rule=CIRCUIT_RULE + "Layer (a): legalize on a copy; where it returns, placeDetailed with an observing callback must "
       "return, every Detailed callback state and the result must satisfy the C01 legality predicate, multi-row cells "
       "keep x/y/orientation from the first callback on. Layer (b): DetailedPlacer on the legalized circuit driven by a "
       "generated history of 1..12 runSwaps/runInserts/runShifts/runReordering calls with arbitrary windows, exported and "
       "judged after each. non-trivial = (a) >= 2 callbacks and some cell moved, (b) value() changed; distinct = hash of "
       "circuit (and pass count). Layer (c), exhaustive: every sequence of swap/insert operations up to depth 3 (4) from "
       "every legal initial placement of <= 3 (4) cells of width 1..2 (3) in three row configurations: canSwap/canInsert "
       "true => the operation succeeds and an independent structural predicate holds, false => it throws and changes nothing. 1 case in 32 adds a large companion instance (up to 150 movable cells) through layer (a); a third of the cases are judged again through layer (a) with the rows handed over in another order (reversed / rotated / shuffled) on a Circuit object that was placed before with its fixed cells elsewhere and then set to the same contents through its setters. Half of the movable cells carry a polarity and 30% of those a polarity that does not match their row count (NW/SE single-row cells). Degenerate companions: rows completely covered by an obstruction and multi-row cells (1 case in 16), rows cut into 17..30 segments by tap cells (1 in 16).",
  assumptions=["detailed.reorderingMaxNbCells <= 5: the reordering search is exponential in the window size (off by default) and a 7-cell window over 3 rows already exceeds the hang limit on the unchanged library", "runShifts is driven with maxNbCells >= 2 and runReordering with nbRows >= 1, the guards of their only caller",
               "insert(c,row,pred) is driven with pred = -1 or a cell of that row"])


P("C05",
  rc={"quick": (12, 3000, 100, 8), "thorough": (14, 40000, 100, 16)},
  budget={"quick": 150, "thorough": 1500},
  fuzz={"quick": None, "thorough": (2, 2000000, 4096)},
  rule=CIRCUIT_RULE + "Layer (a): Circuit::hpwl() recorded at every Detailed callback of placeDetailed and at return must "
       "be non-increasing and end at or below the value after legalize alone on an identical copy. Layer (b): "
       "DetailedPlacer on the legalized circuit driven by 1..12 generated passes: value() never increases, equals hpwl() "
       "of the exported placement while no orientation changed, and equals hpwl() after construction. non-trivial = the "
       "wirelength strictly decreased at least once and a net of degree >= 3 exists; distinct = hash of the circuit. 1 case in 32 adds a large companion instance (up to 150 movable cells) through layer (a); a third of the cases are judged again through layer (a) with the rows handed over in another order (reversed / rotated / shuffled) on a Circuit object that was placed before with its fixed cells elsewhere and then set to the same contents through its setters. A fifth of the cases give some nets weight 0 or -1; one case in eight is also run translated by 2^25 in x and/or y (coordinates beyond 2^24).",
  assumptions=["detailed.reorderingMaxNbCells <= 5: the reordering search is exponential in the window size (off by default) and a 7-cell window over 3 rows already exceeds the hang limit on the unchanged library", "Circuit::hpwl() is the measure (C09 pins it to geometry)"])


GLOBAL_DOMAIN = ("Global-placement domain: every row segment at least four row heights wide, at least one movable row-high cell "
                 "of positive area, no cell with a positive height below half a row (resource bound on the bin count), "
                 "parameters in the numerically moderate box (CG tolerance >= 1e-6, approximation and cutoff distances >= 0.1), "
                 "sideMargin in [0,1.5], maxNbSteps <= 30 (60 thorough). ")

P("C06",
  rc={"quick": (14, 700, 100, 8), "thorough": (14, 12000, 100, 12)},
  budget={"quick": 150, "thorough": 1800},
  case_timeout=120,
  rule=CIRCUIT_RULE + GLOBAL_DOMAIN + "Oracle, with an observing callback: at every UpperBound callback the centre of every "
       "movable cell of positive area lies in the bounding box of rows() (+-1 +2 ulp_float); every exposed and returned "
       "coordinate satisfies |v| <= 2^30 and float-cast-overflow stays silent; the returned coordinates equal "
       "(1-w) LB + w UB of the integer placements seen at the last LowerBound / UpperBound callbacks within "
       "0.5(|1-w|+|w|)+0.5+4ulp; no exception. non-trivial = >= 3 upper-bound steps, LB and UB differ by more than 4 units "
       "for some cell, and a fixed cell exists; distinct = hash of the circuit. Object histories: in a quarter of the cases every circuit of the case is not built fresh but reached on an object that was built with its fixed cells elsewhere, queried (computeRows, hpwl) and legalized, and then brought to the case's contents through setCellX/Y/Orientation or setSolution (same contents, other history). A quarter of the cases clear the obstruction flag on a third of the movable cells; 1 case in 48 adds a large companion instance (up to 200 movable cells).",
  assumptions=["zero-area movable cells are in no density bin by design (C16) and are exempt from the centre-inside clause",
               "cases where the side margin removes every free segment are discarded (the degenerate case the property excludes)"])


P("C03",
  rc={"quick": (14, 1500, 100, 8), "thorough": (14, 25000, 100, 12)},
  budget={"quick": 150, "thorough": 1800},
  case_timeout=120,
  rule=CIRCUIT_RULE + "Flows: placeGlobal, legalize, placeDetailed, global->legalize->detailed, legalize twice (global "
       "flows in the global-placement domain); callback none / observing / throwing a harness-private exception at a "
       "generated index; 1 in 12 cases with a rejected parameter set. Oracle: a snapshot of every public getter is equal "
       "before and after each call, and inside every callback, for everything except x/y/orientation of movable cells "
       "(after placeGlobal all orientations too), whether the call returned or threw. non-trivial = a fixed cell carries a "
       "pin and a movable cell moved, or a call ended in an exception; distinct = hash of circuit, flow and callback mode. Object histories: in a quarter of the cases every circuit of the case is not built fresh but reached on an object that was built with its fixed cells elsewhere, queried (computeRows, hpwl) and legalized, and then brought to the case's contents through setCellX/Y/Orientation or setSolution (same contents, other history). 1 global-placement case in 16 is the shape on which the solver is known to return non-finite coordinates (unit rows far from the origin, a net without a fixed pin); it is judged in a forked child like the rest of that class.",
  assumptions=["the class of known finding c06-unanchored-far-from-origin is excluded from the flows that run global placement"])


P("C10",
  level="fault_enumeration",
  rc={"quick": (14, 600, 100, 8), "thorough": (14, 10000, 100, 8)},
  budget={"quick": 150, "thorough": 1800},
  case_timeout=200,
  rule=CIRCUIT_RULE + "Small instances (<= 12 movable cells, maxNbSteps <= 12), stage in {placeGlobal, legalize, "
       "placeDetailed}, 1 in 11 with rejected parameters. Reference run with a callback that calls every structural setter "
       "(addNet, setNets, setRows, setupRows, setCellIsFixed, setCellIsObstruction, setCellRowPolarity) at every invocation: "
       "each must throw and change nothing; this yields K. Then for EVERY k < K a fresh copy is run with a callback throwing a "
       "harness-private exception at invocation k: it must reach the caller, afterwards every setter is accepted, "
       "Circuit::check() passes and a further legalize behaves as on a fresh circuit with the same placement; after a failed "
       "legalization or rejected parameters the placement is bit-identical. non-trivial = K >= 3, or an infeasible "
       "legalization with >= 3 cells; distinct = hash of circuit and stage. class_histogram['fault-points'] is the number of "
       "injected faults. Object histories: in a quarter of the cases every circuit of the case is not built fresh but reached on an object that was built with its fixed cells elsewhere, queried (computeRows, hpwl) and legalized, and then brought to the case's contents through setCellX/Y/Orientation or setSolution (same contents, other history). One case in eight of the legalize / placeDetailed stages contains a movable cell lower than a row (the legalization then fails and must leave the placement alone).",
  assumptions=["only the setters named by the property's mechanism are required to refuse"])


P("C17",
  rc={"quick": (12, 5000, 100, 8), "thorough": (14, 80000, 100, 8)},
  budget={"quick": 150, "thorough": 1500},
  fuzz={"quick": None, "thorough": (2, 2000000, 4096)},
  rule="net lists on 1..15 cells built directly on NetModel: 1..20 nets of degree 2..5 (a third of the cases 2-pin only), "
       "fixed and movable pins, offsets in quarter units, weights 1 / quarter multiples / real in [0.25,8], every cell anchored "
       "with probability 0.85, coordinates and targets in [0,100] (targets also outside), penalty strengths [50,500], cutoff "
       "[100,300], approximation distance [1,20], tolerance 1e-6, all four net models. Oracles: bitwise equality of "
       "solveStar/solve/solveWithPenalty under a common factor 2^k (k in -6..6) on weights and strengths; deviation <= 1e-3 of "
       "the range under factors 2.5 and 7; agreement with a dense double-precision solve of the documented quadratic model "
       "(initial star model; 2-pin nets under all models with and without penalty) within 10*(tol*|b|/lambda_min + "
       "kappa*eps*|x*|), instances whose bound exceeds 1% of the range counted as ill-conditioned and skipped; 1 case in 6 "
       "runs Circuit::placeGlobal twice with all net weights scaled by 2^k and compares the first lower bound. non-trivial = "
       "weights not all equal, one non-integral, and a net of degree >= 3 (or the 2-pin dense comparison ran); distinct = hash "
       "of the net list.",
  assumptions=["Eigen dense LDLT / eigenvalues in double as the reference", "no float under/overflow: factors 2^-6..2^6 on values in [1e-3,1e4]"])


P("C16",
  rc={"quick": (12, 4000, 100, 8), "thorough": (14, 60000, 100, 8)},
  budget={"quick": 150, "thorough": 1500},
  fuzz={"quick": None, "thorough": (2, 2000000, 4096)},
  rule="a DensityLegalizer is built either on generated disjoint row-like regions (split rows, missing rows, origin up to "
       "2^20, bin size 1..3 row heights, 1..25 cells with 1 in 8 of zero demand) or through fromIspdCircuit on generated "
       "circuits (obstructions, margins 0..1.5, bin factors 1..25, zero-size movable cells); then a state machine applies "
       "1..25 operations drawn from refineX/Y, coarsenX/Y (guarded by their level preconditions), coarsenFully, refineFully, "
       "refine, improve, run, new targets (inside / outside / coincident / huge) and setParams (every accepted rough-"
       "legalization parameter set, six cost models, 1-D transport). After construction and after every operation: bin "
       "limits span the area and are monotone; the capacity of every bin of the current view equals the free area of the "
       "harness's own region list inside it (interval arithmetic) and the total is that free area; every cell of positive "
       "demand is in exactly one bin with consistent cellBinX/Y, zero-demand cells in none; spread and simple coordinates "
       "lie in the cell's bin +-2ulp. non-trivial = capacities are non-uniform and the history has a coarsen after a refine "
       "and an improve/run; distinct = hash of regions, demands and history.",
  assumptions=["side margin = floor(sideMargin * smallest positive cell height), the code's reading of 'standard cell height'"])


P("C18",
  rc={"quick": (12, 8000, 100, 8), "thorough": (14, 120000, 100, 8)},
  fuzz={"quick": None, "thorough": (2, 2000000, 4096)},
  rule=CIRCUIT_RULE + "Zero-size movable cells allowed. expandCellsToDensity(target in (0,1), margin 0..2, cap 0.05..1.5) and "
       "expandCellsByFactor(factors in [1,4], maxDensity 0.05..1.5, margin): only widths of movable cells change (frame "
       "snapshot), no movable width decreases when cap*maxRowWidth >= its width, movable area <= target*A_hi + 1e-5*A + sum of "
       "cell heights with A_hi = sum over the harness's free segments of max(0,w-2*margin*h)*h; when the target is reachable "
       "without the per-cell cap the movable area >= target*A_lo - h_max - 1e-5*A. computeCellExpansion on 0..6 overlapping "
       "regions (congestion 0..3): 1 for fixed cells and cells meeting no region with congestion > 1, else the max of "
       "(c-1)*penaltyFactor+fixedPenalty+1 (relative 1e-5). non-trivial = >= 2 movable cells of different heights with an "
       "obstruction or a margin removing >= 5% of the area and an actual expansion; for computeCellExpansion a cell meeting "
       ">= 2 congested regions; distinct = hash of circuit and arguments. Each case continues as a history on the same object: up to two further steps (fixed cells moved or turned through setCellX/Y, setSolution or setCellOrientation; then one of the three calls again, the side margin reused with probability 2/3), every clause judged against the current contents. The congestion map repeats 0..2 of its rectangles with other values.",
  assumptions=["zero-area movable cells are not judged by the computeCellExpansion clause ('intersects' is ambiguous for them)"])


P("C08",
  variants=["san", "tsan"],
  rc={"quick": (10, 200, 100, 8), "thorough": (10, 4000, 100, 8)},
  budget={"quick": 150, "thorough": 1800},
  case_timeout=200,
  rule=CIRCUIT_RULE + GLOBAL_DOMAIN + "Stage in {placeGlobal (5/9), legalize, placeDetailed}; noise > 0 in two thirds of the "
       "global cases. Oracle: bitwise equality of Circuit::solution() between the reference run and: a repeated run, a run on "
       "a copy, a run with an observing callback, a run after an unrelated placement in the same process, runs under the "
       "schedules x-then-y / y-then-x / jitter imposed through the COLOQUINTE_VERIF hook (two-party barrier on entry, then the "
       "other solve is held until the requested one has exited; jitter sleeps 0..3 ms on entry and exit), and a run pinned to "
       "one CPU. The tsan build of the same property runs the schedules under ThreadSanitizer with halt_on_error. non-trivial "
       "= global placement with >= 2 hooked solve pairs, >= 3 lower-bound steps and noise > 0; for the other stages a cell "
       "moved; distinct = hash of circuit and stage. In half of the single-thread cases the stage is also run on a Circuit object that was placed before and then brought to a variant of the case (fixed cells moved) through its setters, and compared with the same contents built fresh. 30% of the global-placement cases may contain components without a fixed pin (cells on no net); only the class of the recorded finding (such a component and an area more than ~1000 average cell lengths from the origin) is left out.",
  assumptions=["the hook only delays threads, it never kills them; a wait that exceeds 20 s gives up and is counted",
               "xtopo_ is declared before ytopo_ in GlobalPlacer, so the lower address is the x model",
               "ThreadSanitizer judges the executions actually produced; an interleaving needing a pre-emption inside Eigen's CG loop is out of reach"])


P("C07",
  variants=["san", "sannd"],
  rc={"quick": (6, 1500, 100, 8), "thorough": (8, 30000, 100, 12)},
  fuzz={"quick": (6, 200000, 4096), "thorough": (8, 5000000, 4096)},
  budget={"quick": 100, "thorough": 2400},
  case_timeout=120,
  hang_s=60,
  rule=CIRCUIT_RULE + "Biased to the nanometre scale (5/9) and to degenerate shapes (single row, single movable cell, no nets, "
       "degree-1 nets, all pins on one cell, all cells fixed but one, zero-size terminals, over-full); flows: each stage, "
       "global->legalize->detailed, global->detailed, legalize->legalize->detailed, with or without an observing callback; "
       "global parameters in the moderate box, maxNbSteps <= 20 (40). Oracle: the process survives - a std::exception is "
       "fine; an assert abort, an ASan/UBSan report (signed overflow, out of bounds, integer division by zero, "
       "float-cast-overflow, null), a non-std exception or a case that does not end within 60 s alone (3/3) is a violation. "
       "Engines: libFuzzer on the tape bytes (structure-aware through the decoder) plus rapidcheck workers, on the `san` "
       "build (assertions on) and the `sannd` build (NDEBUG). non-trivial = the case reached >= 2 stages or threw, at decade "
       "or nanometre scale; distinct = hash of circuit, flow and shape. Object histories: in a quarter of the cases every circuit of the case is not built fresh but reached on an object that was built with its fixed cells elsewhere, queried (computeRows, hpwl) and legalized, and then brought to the case's contents through setCellX/Y/Orientation or setSolution (same contents, other history). Companions: 1 case in 32 a large instance (up to 250 movable cells), 1 in 32 rows completely covered by an obstruction and multi-row cells, 1 in 32 rows cut into 17..30 segments by tap cells.",
  assumptions=["detailed.reorderingMaxNbCells <= 5: the reordering search is exponential in the window size (off by default) and a 7-cell window over 3 rows already exceeds the hang limit on the unchanged library", "resource bounds of the harness: no positive cell height below half a row when global placement runs (bounds the bin count), maxNbSteps, reordering window <= 5 cells",
               "the class of known finding c06-unanchored-far-from-origin is excluded by construction and counted"])


P("C20",
  python=True,
  rule="Hypothesis strategies (seeded with VERIF_SEED) build circuits the text format can carry: 1..8 cells of size 0..20 x "
       "0..12 times a scale in {1,10,100,1000} (so sizes < 1e5), placed (any of the 8 orientations) or unplaced, fixed flags, "
       "1..5 row levels with 1..2 segments and orientations N/FS/S/FN, 0..8 nets of degree 1..5 with pins inside, on the "
       "corners and outside the outline. A C++ tool built from the current tree builds the Circuit, calls exportIspd and "
       "prints hpwl(); the package's own reader (pycoloquinte/coloquinte.py, run against a pure-Python stand-in for the "
       "compiled module) reads the files back; sizes, fixed flags, x, y, orientation, net connectivity, raw pin offsets, row "
       "rectangles and row orientations must be reproduced, and an independent Python reference HPWL must equal the C++ value "
       "before and after the round trip. non-trivial = a pin with an asymmetric offset on a non-N cell, or a non-N row; "
       "distinct = hash of the case. Exhaustive part ('programs'): every py::enum_ value, def_readwrite, def_property and "
       ".def in module.cpp is parsed and must name the C++ entity of the same name in coloquinte.hpp. The name handed to exportIspd is drawn from names with and without dots in the last component (rt, rt.placed, design.v2, a.b.c, ...), and in half of the cases another circuit is first exported under the stem of that name into the same directory.",
  assumptions=["the compiled Python module cannot be built here (empty pybind11 submodule): the reader runs against a stand-in, as the property's observation point says",
               "sizes below 1e5 so that the default stream precision of the writer is exact"])


# ----------------------------------------------------------------------------
def sh(cmd, **kw):
    return subprocess.run(cmd, stdout=subprocess.PIPE, stderr=subprocess.STDOUT, text=True, **kw)


def file_hash(paths):
    h = hashlib.sha256()
    for p in sorted(paths):
        h.update(p.encode())
        try:
            with open(p, "rb") as f:
                h.update(f.read())
        except OSError:
            h.update(b"<missing>")
    return h.hexdigest()


def tree_files(root, exts):
    out = []
    for d, _, fs in os.walk(root):
        for f in fs:
            if f.endswith(exts):
                out.append(os.path.join(d, f))
    return out


def repo_key():
    files = tree_files(os.path.join(REPO, "src"), (".cpp", ".hpp", ".h"))
    return file_hash(files)


class BuildError(Exception):
    pass


def compile_one(args):
    src, obj, flags = args
    if os.path.exists(obj):
        return None
    os.makedirs(os.path.dirname(obj), exist_ok=True)
    tmp = obj + ".tmp%d" % os.getpid()
    r = sh([CXX] + flags + ["-c", src, "-o", tmp])
    if r.returncode != 0:
        return "compile failed: %s\n%s" % (src, r.stdout[-6000:])
    os.replace(tmp, obj)
    return None


def gc_dirs(parent, prefix, keep):
    if not os.path.isdir(parent):
        return
    for d in os.listdir(parent):
        if d.startswith(prefix) and d not in keep:
            shutil.rmtree(os.path.join(parent, d), ignore_errors=True)


def build(pids, variants_needed=None, quiet=False):
    """Build library variants and the harness binaries for the given properties.
    Returns {(pid, variant): {kind: path}}."""
    os.makedirs(BUILD, exist_ok=True)
    lock = open(os.path.join(BUILD, ".lock"), "w")
    fcntl.flock(lock, fcntl.LOCK_EX)
    try:
        rk = repo_key()
        shared = [os.path.join(HARNESS, f) for f in os.listdir(HARNESS) if f.endswith(".hpp")]
        shared_key = file_hash(shared)
        jobs = []
        result = {}
        libdirs = {}
        need = set()
        for pid in pids:
            for v in PROPS[pid]["variants"]:
                if variants_needed is None or v in variants_needed:
                    need.add(v)
        keep_lib = set()
        for v in sorted(need):
            flags = COMMON + VARIANTS[v]
            key = hashlib.sha256((rk + " ".join(flags)).encode()).hexdigest()[:16]
            d = os.path.join(BUILD, "lib", "%s-%s" % (v, key))
            libdirs[v] = d
            keep_lib.add("%s-%s" % (v, key))
            for s in LIB_SOURCES:
                obj = os.path.join(d, s.replace("/", "_")[:-4] + ".o")
                jobs.append((os.path.join(REPO, "src", s), obj, flags))
        # garbage-collect stale library builds of the variants being rebuilt
        if os.path.isdir(os.path.join(BUILD, "lib")):
            for dname in os.listdir(os.path.join(BUILD, "lib")):
                v = dname.split("-")[0]
                if v in need and dname not in keep_lib:
                    shutil.rmtree(os.path.join(BUILD, "lib", dname), ignore_errors=True)
        # harness objects
        hobjs = {}
        for v in sorted(need):
            flags = COMMON + VARIANTS[v]
            for fe in ("main_rc", "main_replay", "main_fuzz"):
                src = os.path.join(HARNESS, fe + ".cpp")
                key = hashlib.sha256((file_hash([src]) + shared_key + " ".join(flags)).encode()).hexdigest()[:16]
                obj = os.path.join(BUILD, "obj", "%s-%s-%s.o" % (fe, v, key))
                fl = list(flags)
                if fe != "main_fuzz":
                    pass
                hobjs[(fe, v)] = obj
                jobs.append((src, obj, fl))
        pobjs = {}
        for pid in pids:
            for v in PROPS[pid]["variants"]:
                if v not in need:
                    continue
                flags = COMMON + VARIANTS[v]
                src = os.path.join(HARNESS, "prop_%s.cpp" % pid)
                if not os.path.exists(src):
                    continue
                key = hashlib.sha256((file_hash([src]) + shared_key + rk + " ".join(flags)).encode()).hexdigest()[:16]
                obj = os.path.join(BUILD, "obj", "prop_%s-%s-%s.o" % (pid, v, key))
                pobjs[(pid, v)] = (obj, key)
                jobs.append((src, obj, flags))
        t0 = time.time()
        todo = [j for j in jobs if not os.path.exists(j[1])]
        if todo and not quiet:
            print("[build] compiling %d objects" % len(todo), flush=True)
        with cf.ThreadPoolExecutor(max_workers=NCPU) as ex:
            errs = [e for e in ex.map(compile_one, todo) if e]
        if errs:
            raise BuildError("\n".join(errs))
        # archives
        for v, d in libdirs.items():
            ar = os.path.join(d, "libcoloquinte.a")
            if not os.path.exists(ar):
                objs = [os.path.join(d, s.replace("/", "_")[:-4] + ".o") for s in LIB_SOURCES]
                r = sh(["ar", "rcs", ar + ".tmp"] + objs)
                if r.returncode != 0:
                    raise BuildError(r.stdout)
                os.replace(ar + ".tmp", ar)
        # link
        links = []
        for (pid, v), (obj, key) in pobjs.items():
            libkey = os.path.basename(libdirs[v])
            bdir = os.path.join(BUILD, "bin", "%s-%s-%s-%s" % (pid, v, key, libkey[-8:]))
            res = {}
            for fe, kind in (("main_rc", "rc"), ("main_replay", "replay"), ("main_fuzz", "fuzz")):
                if kind == "fuzz" and v == "tsan":
                    continue
                exe = os.path.join(bdir, "%s_%s" % (pid, kind))
                res[kind] = exe
                if os.path.exists(exe):
                    continue
                lf = list(LINK[v])
                if kind == "fuzz":
                    lf = [f for f in lf] + ["-fsanitize=fuzzer"]
                extra = ["-lrapidcheck"] if kind == "rc" else []
                links.append((exe, [CXX] + lf + [hobjs[(fe, v)], obj,
                                                  os.path.join(libdirs[v], "libcoloquinte.a")] + extra + LIBS))
            result[(pid, v)] = res
            # gc older binaries of this property/variant
            gc_dirs(os.path.join(BUILD, "bin"), "%s-%s-" % (pid, v), {os.path.basename(bdir)})

        def link_one(a):
            exe, cmd = a
            os.makedirs(os.path.dirname(exe), exist_ok=True)
            tmp = exe + ".tmp%d" % os.getpid()
            r = sh(cmd + ["-o", tmp])
            if r.returncode != 0:
                return "link failed: %s\n%s" % (exe, r.stdout[-6000:])
            os.replace(tmp, exe)
            return None
        with cf.ThreadPoolExecutor(max_workers=NCPU) as ex:
            errs = [e for e in ex.map(link_one, links) if e]
        if errs:
            raise BuildError("\n".join(errs))
        # gc stale objects (keep those referenced now)
        keep = set(os.path.basename(o) for o in hobjs.values()) | set(os.path.basename(o) for o, _ in pobjs.values())
        od = os.path.join(BUILD, "obj")
        if os.path.isdir(od):
            for f in os.listdir(od):
                stem = f.rsplit("-", 1)[0]
                if f not in keep and any(k.rsplit("-", 1)[0] == stem for k in keep):
                    try:
                        os.remove(os.path.join(od, f))
                    except OSError:
                        pass
        if todo and not quiet:
            print("[build] done in %.1fs" % (time.time() - t0), flush=True)
        return result
    finally:
        fcntl.flock(lock, fcntl.LOCK_UN)
        lock.close()


# ----------------------------------------------------------------------------
# Known findings
# ----------------------------------------------------------------------------
def load_findings():
    """known_findings.txt lines:
       known: property=<ID> slug=<slug> match=/<regex>/ replay=<path> :: <what fails>
       fixed: property=<ID> <commit> <what failed> [replay=<path>]
    """
    out = []
    path = os.path.join(VERIF, "known_findings.txt")
    if not os.path.exists(path):
        return out
    for line in open(path):
        line = line.strip()
        if not line or line.startswith("#"):
            continue
        m = re.match(r"known:\s+property=(\S+)\s+slug=(\S+)\s+match=/(.*?)/\s+replay=(\S+)\s+::\s+(.*)$", line)
        if m:
            out.append({"status": "known", "property": m.group(1), "slug": m.group(2),
                        "match": m.group(3), "replay": m.group(4), "what": m.group(5)})
            continue
        m = re.match(r"fixed:\s+property=(\S+)\s+(\S+)\s+(.*)$", line)
        if m:
            what = m.group(3)
            rp = re.search(r"\[replay=(\S+)\]", what)
            out.append({"status": "fixed", "property": m.group(1), "commit": m.group(2),
                        "what": what, "replay": rp.group(1) if rp else None})
            continue
        raise SystemExit("known_findings.txt: cannot parse line: " + line)
    return out


def mix(seed, k):
    x = (seed * 0x9E3779B97F4A7C15 + (k + 1) * 0xBF58476D1CE4E5B9) & 0xFFFFFFFFFFFFFFFF
    x ^= x >> 31
    x = (x * 0x94D049BB133111EB) & 0xFFFFFFFFFFFFFFFF
    x ^= x >> 29
    return (x % 2000000000) + 1


class Proc:
    def __init__(self, name, cmd, env, prefix, timeout, kind):
        self.name, self.cmd, self.env, self.prefix, self.timeout, self.kind = name, cmd, env, prefix, timeout, kind
        self.rc = None
        self.out = ""
        self.timed_out = False
        self.wall = 0.0


def run_proc(p):
    t0 = time.time()
    env = dict(os.environ)
    env.update(SAN_ENV)
    env.update(p.env)
    try:
        r = subprocess.run(p.cmd, stdout=subprocess.PIPE, stderr=subprocess.STDOUT, env=env,
                           timeout=p.timeout, cwd=os.path.dirname(p.prefix))
        p.rc = r.returncode
        p.out = r.stdout.decode("utf-8", "replace")
    except subprocess.TimeoutExpired as e:
        p.timed_out = True
        p.rc = -9
        p.out = (e.stdout or b"").decode("utf-8", "replace")
    p.wall = time.time() - t0
    return p


def replay_once(exe, tape, timeout=120, env_extra=None, cpu_limit=None):
    """Replay one tape in a fresh process.  With cpu_limit the criterion for a hang is CPU time
    (RLIMIT_CPU, independent of the load of the machine); the wall-clock limit is then only a
    safety net and running into it is reported as 'stalled' (inconclusive), not as a timeout."""
    env = dict(os.environ)
    env.update(SAN_ENV)
    env["VERIF_PRINT_TAGS"] = "1"
    if env_extra:
        env.update(env_extra)
    pre = None
    if cpu_limit:
        import resource

        def pre():
            resource.setrlimit(resource.RLIMIT_CPU, (int(cpu_limit), int(cpu_limit) + 5))
        timeout = max(timeout, int(cpu_limit) * 10)
    try:
        r = subprocess.run([exe, tape], stdout=subprocess.PIPE, stderr=subprocess.STDOUT, env=env, timeout=timeout,
                           preexec_fn=pre)
    except subprocess.TimeoutExpired:
        if cpu_limit:
            return "stalled", "no verdict within %ds of wall-clock time (machine overloaded?)" % timeout
        return "timeout", "timeout after %ds" % timeout
    if cpu_limit and r.returncode in (-24, -9):  # SIGXCPU (soft limit), SIGKILL (hard limit)
        return "timeout", "more than %ds of CPU time" % cpu_limit
    out = r.stdout.decode("utf-8", "replace")
    if r.returncode == 0:
        return "ok", ""
    m = re.search(r"FAIL \S+ :: (.*)", out)
    if m:
        return "fail", m.group(1).strip()
    return "crash", crash_signature(out)


def crash_signature(out):
    """One line naming the sanitizer/assert failure and the top library frame."""
    lines = out.splitlines()
    sig = None
    for ln in lines:
        if "runtime error:" in ln:
            sig = "ubsan: " + ln.split("runtime error:", 1)[1].strip()
            m = re.search(r"(\S+\.[ch]pp:\d+)", ln)
            if m:
                sig += " at " + os.path.basename(m.group(1))
            break
        if "ERROR: AddressSanitizer" in ln:
            sig = "asan: " + ln.split("AddressSanitizer:", 1)[1].strip().split(" on ")[0]
            break
        if "Assertion" in ln and "failed" in ln:
            m = re.search(r"(\w+\.[ch]pp):(\d+).*Assertion `(.*)' failed", ln)
            sig = "assert: " + (("%s `%s'" % (m.group(1), m.group(3))) if m else ln.strip())
            break
        if "ThreadSanitizer:" in ln:
            sig = "tsan: " + ln.split("ThreadSanitizer:", 1)[1].strip()
            break
        if "terminate called" in ln:
            sig = "terminate: " + ln.strip()
            break
    if sig is None:
        sig = "crash: " + (lines[-1].strip() if lines else "no output")
    tags = [ln.split("CASE-TAG:", 1)[1].strip() for ln in lines if "CASE-TAG:" in ln]
    # first frame inside the repository sources
    for ln in lines:
        m = re.search(r"#\d+ .* in (.+?) " + re.escape(REPO) + r"/src/(\S+?):(\d+)", ln)
        if m:
            sig += " in " + m.group(2) + ":" + m.group(3)
            break
    if tags:
        sig += " [case: " + "; ".join(tags[-3:]) + "]"
    return sig[:500]


def read_tape(path):
    b = open(path, "rb").read()
    n = len(b) // 4
    return list(struct.unpack("<%dI" % n, b[:4 * n]))


def write_tape(path, words):
    with open(path, "wb") as f:
        f.write(struct.pack("<%dI" % len(words), *words))


def minimise(exe, tape_path, want_kind, want_sig, budget_s=90):
    """Delta-debugging on the tape for failures the library could not shrink
    (sanitizer aborts kill the process before rapidcheck can shrink)."""
    words = read_tape(tape_path)
    t_end = time.time() + budget_s
    tmp = tape_path + ".min"

    def same_class(sig):
        # compare the failure class (text up to the first number) to stay on one root cause
        return re.sub(r"\d+", "N", sig)[:60] == re.sub(r"\d+", "N", want_sig)[:60]

    def fails(ws):
        write_tape(tmp, ws)
        kind, sig = replay_once(exe, tmp, timeout=60)
        return kind == want_kind and same_class(sig)

    # 1. truncate / drop chunks
    chunk = max(1, len(words) // 2)
    while chunk >= 1 and time.time() < t_end:
        i = 0
        changed = False
        while i < len(words) and time.time() < t_end:
            cand = words[:i] + words[i + chunk:]
            if fails(cand):
                words = cand
                changed = True
            else:
                i += chunk
        if not changed:
            chunk //= 2
    # 2. shrink words toward zero
    for i in range(len(words)):
        if time.time() >= t_end:
            break
        if words[i] == 0:
            continue
        for cand_v in (0, words[i] % 256, words[i] // 2):
            if cand_v == words[i]:
                continue
            cand = list(words)
            cand[i] = cand_v
            if fails(cand):
                words = cand
                break
    write_tape(tmp, words)
    os.replace(tmp, tape_path)
    return words


def union_hashes(prefixes):
    seen = set()
    for p in prefixes:
        f = p + ".hashes"
        if os.path.exists(f):
            b = open(f, "rb").read()
            n = len(b) // 8
            seen.update(struct.unpack("<%dQ" % n, b[:8 * n]))
    return len(seen)


def build_c20_tool():
    """Library (san variant) + the small export tool of C20."""
    build(["C20"], quiet=True)
    rk = repo_key()
    flags = COMMON + VARIANTS["san"]
    key = hashlib.sha256((rk + " ".join(flags)).encode()).hexdigest()[:16]
    libdir = os.path.join(BUILD, "lib", "san-%s" % key)
    src = os.path.join(HARNESS, "c20_export.cpp")
    tkey = hashlib.sha256((key + file_hash([src])).encode()).hexdigest()[:12]
    d = os.path.join(BUILD, "bin", "C20-tool-%s" % tkey)
    exe = os.path.join(d, "c20_export")
    if not os.path.exists(exe):
        gc_dirs(os.path.join(BUILD, "bin"), "C20-tool-", set())
        os.makedirs(d, exist_ok=True)
        r = sh([CXX] + COMMON + SAN + [src, os.path.join(libdir, "libcoloquinte.a")] + LIBS + ["-o", exe + ".tmp"])
        if r.returncode != 0:
            raise BuildError(r.stdout[-4000:])
        os.replace(exe + ".tmp", exe)
    return exe


def run_check_c20(tier, seed, replay=None):
    pid = "C20"
    cfg = PROPS[pid]
    t_start = time.time()
    try:
        tool = build_c20_tool()
    except BuildError as e:
        print(str(e))
        print("BUILD-FAILED property=C20")
        return 2
    script = os.path.join(VERIF, "py", "c20_check.py")
    work = os.path.join(BUILD, "run", "C20-%s" % tier)
    shutil.rmtree(work, ignore_errors=True)
    os.makedirs(work)
    base = ["python3-vt", script, "--tool", tool, "--repo", REPO, "--work", work,
            "--viol-dir", os.path.join(OUTDIR, "violations", "C20")]
    if replay:
        r = subprocess.run(base + ["--replay", replay])
        if r.returncode != 0:
            print("VIOLATION property=C20 replay=%s" % replay)
            return 1
        return 0
    out = os.path.join(work, "result.json")
    budget = 600 if tier == "quick" else 3600
    try:
        r = subprocess.run(base + ["--tier", tier, "--seed", str(seed), "--out", out], stdout=subprocess.PIPE,
                           stderr=subprocess.STDOUT, text=True, timeout=budget)
        log = r.stdout
    except subprocess.TimeoutExpired as e:
        log = "timeout"
    if not os.path.exists(out):
        print(log[-3000:])
        print("inconclusive: the C20 driver did not produce a result")
        return 2
    res = json.load(open(out))
    findings = [f for f in load_findings() if f["property"] == pid and f["status"] == "known"]
    violations, known_hits = [], {}
    for f in res["failures"] + res["replay_failures"]:
        k = [kf for kf in findings if re.search(kf["match"], f["reason"])]
        if k:
            known_hits[k[0]["slug"]] = (k[0], f["reason"])
        else:
            violations.append((f["replay"], f["reason"]))
    if res["binding_problems"]:
        bp = os.path.join(OUTDIR, "violations", "C20")
        os.makedirs(bp, exist_ok=True)
        path = os.path.join(bp, "bindings.json")
        json.dump(res["binding_problems"], open(path, "w"), indent=1)
        for p in res["binding_problems"]:
            k = [kf for kf in findings if re.search(kf["match"], p)]
            if k:
                known_hits[k[0]["slug"]] = (k[0], p)
            else:
                violations.append((path, "binding table: " + p))
    coverage = {
        "evaluations": res["evaluations"] + res["programs"] + res["replayed"],
        "distinct_nontrivial": res["distinct"],
        "rule": cfg["rule"],
        "samples": res["samples"] or [{"note": "no sample"}],
        "generated_cases": res["evaluations"],
        "programs": res["programs"],
        "disagreements_checked": len(res["binding_problems"]),
        "binding_samples": res.get("binding_samples", []),
        "replayed_cases": res["replayed"],
        "violating_cases": [{"replay": t, "reason": r_} for t, r_ in violations][:10],
        "known_findings_seen": sorted(known_hits),
        "exhaustive_note": "the binding table part enumerates every binding of module.cpp; the round trips are a sample",
    }
    write_evidence(pid, tier, seed, cfg, coverage, len(violations), time.time() - t_start)
    for slug, (f, sig) in sorted(known_hits.items()):
        print("KNOWN-FINDING: property=%s %s [%s; observed: %s]" % (pid, f["what"], slug, sig[:160]))
    print("C20 %s: %d round trips, %d distinct non-trivial, %d bindings checked, %d replayed, %.0fs" % (
        tier, res["evaluations"], res["distinct"], res["programs"], res["replayed"], time.time() - t_start))
    if violations:
        for t, r_ in violations[:5]:
            print("VIOLATION property=%s replay=%s" % (pid, t))
            print("  reason: %s" % r_)
        return 1
    return 0


def run_check(pid, tier, seed, opts):
    cfg = PROPS[pid]
    if cfg.get("python"):
        return run_check_c20(tier, seed)
    t_start = time.time()
    findings = [f for f in load_findings() if f["property"] == pid]
    known = [f for f in findings if f["status"] == "known"]
    exclude = ",".join(f["slug"] for f in known)
    try:
        bins = build([pid])
    except BuildError as e:
        print(str(e))
        print("BUILD-FAILED property=%s (the tree does not compile with the harness)" % pid)
        # A tree that does not build cannot be judged; report as a violation of
        # nothing but make the failure visible.
        write_evidence(pid, tier, seed, cfg, {"evaluations": 0, "distinct_nontrivial": 0, "rule": cfg["rule"],
                                             "samples": [], "build_failed": True}, 0, time.time() - t_start)
        return 2
    rundir = os.path.join(BUILD, "run", "%s-%s" % (pid, tier))
    shutil.rmtree(rundir, ignore_errors=True)
    os.makedirs(rundir)
    main_variant = cfg["variants"][0]
    replay_exe = bins[(pid, main_variant)]["replay"]
    base_env = {"VERIF_TIER": tier, "VERIF_EXCLUDE": exclude, "VERIF_SEED": str(seed)}

    violations = []   # (tape path, reason)
    known_hits = {}   # slug -> reason
    inconclusive = []
    log = []

    def classify_failure(reason):
        for f in known:
            if re.search(f["match"], reason):
                return f
        return None

    # ---- 1. replay tier -----------------------------------------------------
    rdir = os.path.join(VERIF, "replays", pid)
    replayed = 0
    known_replays = {f["replay"]: f for f in known if f.get("replay")}
    if os.path.isdir(rdir):
        for fn in sorted(os.listdir(rdir)):
            if not fn.endswith(".tape"):
                continue
            rel = os.path.join("replays", pid, fn)
            path = os.path.join(VERIF, rel)
            for v in cfg["variants"]:
                if "replay" not in bins.get((pid, v), {}):
                    continue
                kind, sig = replay_once(bins[(pid, v)]["replay"], path, env_extra=dict(base_env, VERIF_EXCLUDE=""))
                replayed += 1
                if kind == "ok":
                    if rel in known_replays and v == main_variant:
                        log.append("known finding %s: reproducer %s no longer fails" % (known_replays[rel]["slug"], rel))
                    continue
                if kind == "timeout":
                    inconclusive.append("replay %s timed out" % rel)
                    continue
                f = classify_failure(sig)
                if f is not None:
                    known_hits[f["slug"]] = (f, sig)
                else:
                    violations.append((path, sig))

    # ---- 2. generated search --------------------------------------------------
    procs = []
    budget = cfg["budget"][tier]
    nexh = cfg["exh"][tier]
    for k in range(nexh):
        prefix = os.path.join(rundir, "exh%d" % k)
        procs.append(Proc("exh%d" % k, [replay_exe, "--exhaustive", str(k), str(nexh), prefix],
                          dict(base_env), prefix, budget * 2 + 60, "exh"))
    rc_cfg = cfg.get("rc", {}).get(tier)
    if rc_cfg:
        workers, cases, max_size, scale = rc_cfg
        for v in cfg["variants"]:
            if "rc" not in bins.get((pid, v), {}):
                continue
            wv = workers if v == main_variant else max(2, workers // 2)
            for k in range(wv):
                prefix = os.path.join(rundir, "rc-%s-%d" % (v, k))
                env = dict(base_env)
                env["RC_PARAMS"] = "seed=%d max_success=%d max_size=%d" % (mix(seed, k + (0 if v == main_variant else 1000)), cases, max_size)
                env["VERIF_TAPE_SCALE"] = str(scale)
                env["VERIF_DEADLINE_S"] = str(budget)
                env["VERIF_CASE_TIMEOUT_S"] = str(cfg.get("case_timeout", 30))
                procs.append(Proc("rc-%s-%d" % (v, k), [bins[(pid, v)]["rc"], prefix], env, prefix,
                                  budget * 2 + 120, "rc"))
    fz = cfg["fuzz"][tier]
    if fz:
        jobs, runs, max_len = fz
        for k in range(jobs):
            prefix = os.path.join(rundir, "fuzz%d" % k)
            corpus = os.path.join(rundir, "corpus%d" % k)
            os.makedirs(corpus)
            seed_corpus = os.path.join(VERIF, "corpus", pid)
            if os.path.isdir(seed_corpus):
                for fn in os.listdir(seed_corpus):
                    shutil.copy(os.path.join(seed_corpus, fn), corpus)
            if os.path.isdir(rdir):
                for fn in os.listdir(rdir):
                    # reproducers of known findings would end the campaign at once
                    if fn.endswith(".tape") and not fn.startswith("known-"):
                        shutil.copy(os.path.join(rdir, fn), corpus)
            env = dict(base_env)
            env["VERIF_OUT"] = prefix
            cmd = [bins[(pid, main_variant)]["fuzz"], corpus, "-seed=%d" % mix(seed, 500 + k), "-runs=%d" % runs,
                   "-max_len=%d" % max_len, "-timeout=60", "-rss_limit_mb=3072", "-print_final_stats=1",
                   "-artifact_prefix=%s." % prefix, "-max_total_time=%d" % budget]
            procs.append(Proc("fuzz%d" % k, cmd, env, prefix, budget * 2 + 120, "fuzz"))

    with cf.ThreadPoolExecutor(max_workers=NCPU) as ex:
        done = list(ex.map(run_proc, procs))

    # ---- 3. collect failures --------------------------------------------------
    candidates = []  # (tape, reason-hint, origin)
    for p in done:
        ftape = p.prefix + ".fail.tape"
        if os.path.exists(ftape):
            hint = open(p.prefix + ".fail.txt").read() if os.path.exists(p.prefix + ".fail.txt") else ""
            candidates.append((ftape, hint, p))
            continue
        if p.timed_out or (p.kind == "rc" and p.rc == -14):
            cur = p.prefix + ".cur"
            if p.kind == "rc" and os.path.exists(cur):
                ws = read_tape(cur)
                if ws and ws[0] > 0:
                    t = p.prefix + ".hang.tape"
                    write_tape(t, ws[1:ws[0]])
                    candidates.append((t, "timeout", p))
                    continue
            inconclusive.append("%s: hard timeout after %.0fs" % (p.name, p.wall))
            continue
        if p.rc == 0:
            continue
        if p.kind == "exh" and p.rc == -14:
            inconclusive.append("%s: exhaustive shard stalled in one instance (watchdog)" % p.name)
            continue
        if p.kind == "rc" and p.rc == 3:
            inconclusive.append("%s: rapidcheck gave up" % p.name)
            continue
        # crash without a shrunk tape
        if p.kind == "rc":
            cur = p.prefix + ".cur"
            if os.path.exists(cur):
                ws = read_tape(cur)
                if ws and ws[0] > 0:
                    t = p.prefix + ".crash.tape"
                    write_tape(t, ws[1:ws[0]])
                    candidates.append((t, crash_signature(p.out), p))
                    continue
            inconclusive.append("%s: exited %s without a tape: %s" % (p.name, p.rc, p.out[-300:]))
        elif p.kind == "fuzz":
            arts = [f for f in os.listdir(rundir) if f.startswith(os.path.basename(p.prefix) + ".crash-")
                    or f.startswith(os.path.basename(p.prefix) + ".leak-")]
            if arts:
                for a in arts:
                    candidates.append((os.path.join(rundir, a), crash_signature(p.out), p))
            else:
                noise = [f for f in os.listdir(rundir) if f.startswith(os.path.basename(p.prefix) + ".")
                         and any(t in f for t in ("timeout-", "oom-", "slow-unit-"))]
                inconclusive.append("%s: exit %s (%s)" % (p.name, p.rc, ",".join(noise) or p.out[-200:]))
        else:
            inconclusive.append("%s: exited %s: %s" % (p.name, p.rc, p.out[-300:]))

    # ---- 4. confirm 3x, minimise crashes, classify ----------------------------
    # at most 3 candidates per failure class are confirmed (bounds the time spent on a broken tree)
    per_class = {}
    kept = []
    for c in candidates:
        key = re.sub(r"\d+", "N", c[1])[:60]
        per_class[key] = per_class.get(key, 0) + 1
        if per_class[key] <= 3:
            kept.append(c)
    hang_s = cfg.get("hang_s", 45)
    for tape, hint, p in kept:
        variant = main_variant
        m = re.match(r"rc-(\w+)-\d+", p.name)
        if m:
            variant = m.group(1)
        exe = bins[(pid, variant)]["replay"]
        with cf.ThreadPoolExecutor(max_workers=3) as ex3:
            results = list(ex3.map(lambda _: replay_once(exe, tape, env_extra=base_env, cpu_limit=hang_s), range(3)))
        kinds = set(k for k, _ in results)
        if kinds == {"ok"} or "ok" in kinds or "stalled" in kinds:
            inconclusive.append("%s: failure '%s' did not reproduce 3/3 (%s)" % (p.name, hint[:120], [k for k, _ in results]))
            continue
        if kinds == {"timeout"}:
            # a single case that normally takes milliseconds ran alone for hang_s seconds, three times
            sig = "hang: case does not terminate within %ds of CPU time when run alone, 3/3" % hang_s
        else:
            kind, sig = [r for r in results if r[0] != "timeout"][0]
            if kind == "crash":
                minimise(exe, tape, "crash", sig)
                kind2, sig2 = replay_once(exe, tape, env_extra=base_env)
                if kind2 == "crash":
                    sig = sig2
        f = classify_failure(sig)
        if f is not None:
            known_hits[f["slug"]] = (f, sig)
            continue
        vdir = os.path.join(OUTDIR, "violations", pid)
        os.makedirs(vdir, exist_ok=True)
        digest = hashlib.sha256(open(tape, "rb").read()).hexdigest()[:12]
        dst = os.path.join(vdir, "%s-%s.tape" % (variant, digest))
        shutil.copy(tape, dst)
        violations.append((dst, sig))

    # ---- 5. evidence ----------------------------------------------------------
    agg = {"evaluations": 0, "nontrivial": 0, "excluded": 0, "discarded": 0, "classes": {}, "samples": [],
           "notes": [], "exh_states": 0, "exh_nontrivial": 0, "exh_done": 0, "exh_shards": nexh}
    prefixes = []
    for p in done:
        jf = p.prefix + ".json"
        if not os.path.exists(jf):
            continue
        try:
            j = json.load(open(jf))
        except Exception as ex:
            inconclusive.append("%s: evidence file unreadable (%s)" % (p.name, ex))
            continue
        if p.kind == "exh":
            agg["exh_states"] += j["exhaustive_states"]
            agg["exh_nontrivial"] += j["nontrivial"]
            agg["exh_done"] += 1 if j["exhaustive_done"] else 0
            agg["evaluations"] += j["exhaustive_states"]
        else:
            agg["evaluations"] += j["evaluations"]
            agg["nontrivial"] += j["nontrivial"]
            prefixes.append(p.prefix)
        agg["excluded"] += j["excluded"]
        agg["discarded"] += j["discarded"]
        for k, v in j["classes"].items():
            agg["classes"][k] = agg["classes"].get(k, 0) + v
        for s in j["samples"]:
            bucket = "exh_samples" if p.kind == "exh" else "samples"
            agg.setdefault(bucket, [])
            if len(agg[bucket]) < (2 if p.kind == "exh" else 5):
                agg[bucket].append(s)
        for s in j["notes"]:
            if s not in agg["notes"] and len(agg["notes"]) < 20:
                agg["notes"].append(s)
    distinct = union_hashes(prefixes) + agg["exh_nontrivial"]
    fuzz_execs = 0
    for p in done:
        if p.kind == "fuzz":
            m = re.search(r"stat::number_of_executed_units:\s*(\d+)", p.out)
            if m:
                fuzz_execs += int(m.group(1))
    coverage = {
        "evaluations": agg["evaluations"] + replayed,
        "distinct_nontrivial": distinct,
        "rule": cfg["rule"],
        "samples": (agg["samples"] + agg.get("exh_samples", [])) or [{"note": "no sample recorded"}],
        "nontrivial_evaluations": agg["nontrivial"] + agg["exh_nontrivial"],
        "generated_cases": agg["evaluations"] - agg["exh_states"],
        "replayed_tapes": replayed,
        "class_histogram": agg["classes"],
        "excluded_as_known_finding": agg["excluded"],
        "discarded_outside_domain": agg["discarded"],
        "workers": len(done),
        "inconclusive": inconclusive[:20],
        "known_findings_seen": sorted(known_hits.keys()),
        "notes": agg["notes"],
        "violating_cases": [{"replay": os.path.relpath(t, VERIF), "reason": r} for t, r in violations][:10],
    }
    if nexh:
        coverage["exhaustive"] = bool(agg["exh_done"] == nexh)
        coverage["exhaustive_instances"] = agg["exh_states"]
        coverage["exhaustive_note"] = ("the enumerated sub-domain was covered completely (%d/%d shards finished); "
                                       "the generated part is a sample" % (agg["exh_done"], nexh))
    if fz:
        coverage["libfuzzer_executions"] = fuzz_execs
    wall = time.time() - t_start
    write_evidence(pid, tier, seed, cfg, coverage, len(violations), wall)

    # ---- 6. verdict -----------------------------------------------------------
    for ln in log:
        print("note: " + ln)
    for ln in inconclusive:
        print("inconclusive: " + ln)
    for slug, (f, sig) in sorted(known_hits.items()):
        print("KNOWN-FINDING: property=%s %s [%s; observed: %s]" % (pid, f["what"], slug, sig[:160]))
    for f in known:
        if f["slug"] not in known_hits:
            print("note: known finding %s was not observed in this run" % f["slug"])
    print("%s %s: %d evaluations (%d exhaustive), %d distinct non-trivial, %d replayed, %.0fs" % (
        pid, tier, coverage["evaluations"], agg["exh_states"], distinct, replayed, wall))
    if violations:
        seen = set()
        for t, r in violations:
            key = re.sub(r"\d+", "N", r)[:80]
            if key in seen:
                continue
            seen.add(key)
            print("VIOLATION property=%s replay=%s" % (pid, t))
            print("  reason: %s" % r)
        return 1
    return 0


def write_evidence(pid, tier, seed, cfg, coverage, nviol, wall):
    os.makedirs(os.path.join(OUTDIR, "evidence"), exist_ok=True)
    ev = {
        "property_id": pid, "tier": tier, "seed": seed, "level": cfg["level"],
        "coverage": coverage,
        "assumptions": cfg.get("assumptions", []) + [
            "clang 14 ASan/UBSan runtimes report every memory error / UB they are documented to catch",
            "library built from /repo working tree with -D%s, assertions enabled" % GUARD],
        "wall_s": round(wall, 2), "violations": nviol,
    }
    tmp = os.path.join(OUTDIR, "evidence", pid + ".json.tmp")
    with open(tmp, "w") as f:
        json.dump(ev, f, indent=1)
    os.replace(tmp, os.path.join(OUTDIR, "evidence", pid + ".json"))


def main():
    args = sys.argv[1:]
    if not args:
        print(__doc__)
        return 2
    if args[0] == "build":
        pids = args[1:] or sorted(PROPS)
        if "C20" in pids:
            build_c20_tool()
        pids = [p for p in pids if os.path.exists(os.path.join(HARNESS, "prop_%s.cpp" % p))]
        build(pids)
        return 0
    pid = args[0]
    if pid not in PROPS:
        print("unknown property " + pid)
        return 2
    tier = os.environ.get("VERIF_TIER", "quick")
    seed = int(os.environ.get("VERIF_SEED", "1"))
    replay = None
    show = False
    i = 1
    while i < len(args):
        if args[i] == "--tier":
            tier = args[i + 1]
            i += 2
        elif args[i] == "--seed":
            seed = int(args[i + 1])
            i += 2
        elif args[i] == "--replay":
            replay = args[i + 1]
            i += 2
        elif args[i] == "--show":
            show = True
            i += 1
        else:
            print("unknown argument " + args[i])
            return 2
    if tier not in ("quick", "thorough"):
        tier = "quick"
    if replay and PROPS[pid].get("python"):
        return run_check_c20(tier, seed, replay=replay)
    if replay:
        bins = build([pid], quiet=True)
        v = PROPS[pid]["variants"][0]
        m = re.match(r"(\w+)-[0-9a-f]+\.tape", os.path.basename(replay))
        if m and (pid, m.group(1)) in bins:
            v = m.group(1)
        exe = bins[(pid, v)]["replay"]
        env = dict(os.environ)
        env.update(SAN_ENV)
        r = subprocess.run([exe] + (["--show"] if show else []) + [replay], env=env)
        if r.returncode != 0:
            print("VIOLATION property=%s replay=%s" % (pid, replay))
            return 1
        return 0
    return run_check(pid, tier, seed, {})


if __name__ == "__main__":
    sys.exit(main())
