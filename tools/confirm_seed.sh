#!/bin/bash
# usage: tools/confirm_seed.sh <ID> [suffix]
# Independently confirm a sub-agent's seeded change from /tmp/seed-<ID>[suffix]:
#  - on a fresh scratch worktree of /repo HEAD the demonstration passes and the 68 unit tests pass,
#  - with the patch applied the unit tests still pass and the demonstration fails.
# On success the change is stored under /verif/seeded/<ID>[suffix]/ and the scratch worktree is removed.
set -u
id=$1; suf=${2:-}
src=/tmp/seed-$id$suf
wt=/tmp/confirm-$id$suf
dst=/verif/seeded/$id$suf
[ -f $src/patch.diff ] || { echo "no patch in $src"; exit 2; }
git -C /repo worktree remove --force $wt >/dev/null 2>&1; rm -rf $wt
git -C /repo worktree add --detach $wt HEAD >/dev/null 2>&1 || exit 2
cp -r $src/demo $wt/demo
# the demo scripts were written for the agent's directory
grep -rl "$src" $wt/demo | xargs -r sed -i "s#$src#$wt#g"
build() { (cd $wt && cmake -Wno-dev -G Ninja -B _build -DCMAKE_BUILD_TYPE=RelWithDebInfo >/dev/null 2>&1 && cmake --build _build 2>&1 | tail -1) ; }
tests() { (cd $wt && ctest --test-dir _build -j8 2>&1 | grep -E "tests passed|tests failed"); }
demo() { (cd $wt && bash demo/run.sh >demo/out.txt 2>&1; echo $?); }
build >/dev/null
base_tests=$(tests); base_demo=$(demo)
(cd $wt && git apply $src/patch.diff) || { echo "patch does not apply"; git -C /repo worktree remove --force $wt; exit 2; }
build >/dev/null
mut_tests=$(tests); mut_demo=$(demo)
echo "$id$suf baseline: tests[$base_tests] demo_exit=$base_demo | with change: tests[$mut_tests] demo_exit=$mut_demo"
tail -3 $wt/demo/out.txt
ok=0
if [[ "$base_tests" == *"100% tests passed"* && "$mut_tests" == *"100% tests passed"* && "$base_demo" == 0 && "$mut_demo" != 0 ]]; then
  ok=1
  rm -rf $dst; mkdir -p $dst
  cp $src/patch.diff $dst/patch.diff
  mkdir -p $dst/demo && cp -r $src/demo/. $dst/demo/ && rm -f $dst/demo/demo $dst/demo/*.o $dst/demo/out.txt
  find $dst/demo -type f -size +200k -delete
  python3 - "$src/meta.json" "$dst/meta.json" "$id" "$base_tests" "$mut_tests" "$base_demo" "$mut_demo" <<'PY'
import json,sys
src,dst,pid,bt,mt,bd,md=sys.argv[1:8]
try: m=json.load(open(src))
except Exception: m={}
m["property"]=pid
m["confirmed"]={"how":"tools/confirm_seed.sh on a fresh scratch worktree of /repo HEAD (removed afterwards): cmake+ninja build, ctest, demo/run.sh; then git apply patch.diff, rebuild, ctest, demo/run.sh",
 "baseline_unit_tests":bt,"baseline_demo_exit":int(bd),"changed_unit_tests":mt,"changed_demo_exit":int(md)}
json.dump(m,open(dst,"w"),indent=1)
PY
  echo "CONFIRMED -> $dst"
else
  echo "NOT CONFIRMED"
fi
git -C /repo worktree remove --force $wt >/dev/null 2>&1; rm -rf $wt; git -C /repo worktree prune
[ $ok = 1 ]
