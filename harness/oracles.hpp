// Independent oracles shared by the circuit-level properties.  None of them
// uses boost::polygon or any library routine of the code under test beyond the
// plain getters of Circuit.
#pragma once

#include <algorithm>
#include <climits>
#include <map>
#include <set>
#include <sstream>
#include <string>
#include <vector>

#include "coloquinte.hpp"

namespace verif {
using coloquinte::CellOrientation;
using coloquinte::CellRowPolarity;
using coloquinte::Circuit;
using coloquinte::Rectangle;
using coloquinte::Row;

// ---------------------------------------------------------------- orientation
/// DEF orientation as a 2x2 integer matrix (x',y') = (a x + b y, c x + d y).
struct Mat {
  int a, b, c, d;
};
inline Mat orientMat(CellOrientation o) {
  switch (o) {
    case CellOrientation::N: return {1, 0, 0, 1};
    case CellOrientation::S: return {-1, 0, 0, -1};
    case CellOrientation::W: return {0, -1, 1, 0};   // R90
    case CellOrientation::E: return {0, 1, -1, 0};   // R270
    case CellOrientation::FN: return {-1, 0, 0, 1};  // MY
    case CellOrientation::FS: return {1, 0, 0, -1};  // MX
    case CellOrientation::FW: return {0, 1, 1, 0};   // MX then R90
    case CellOrientation::FE: return {0, -1, -1, 0}; // MY then R90
    default: return {1, 0, 0, 1};
  }
}
inline bool refIsTurn(CellOrientation o) {
  Mat m = orientMat(o);
  return m.a == 0;
}
/// Placed size and pin offset of a w x h cell with pin (px,py) under o: the
/// transformed outline is translated so that its lower-left corner is (0,0).
inline void refTransform(CellOrientation o, long long w, long long h,
                         long long px, long long py, long long &pw,
                         long long &ph, long long &ox, long long &oy) {
  Mat m = orientMat(o);
  long long xs[4] = {0, w, 0, w}, ys[4] = {0, 0, h, h};
  long long minx = LLONG_MAX, miny = LLONG_MAX, maxx = LLONG_MIN,
            maxy = LLONG_MIN;
  for (int k = 0; k < 4; ++k) {
    long long x = m.a * xs[k] + m.b * ys[k], y = m.c * xs[k] + m.d * ys[k];
    minx = std::min(minx, x), maxx = std::max(maxx, x);
    miny = std::min(miny, y), maxy = std::max(maxy, y);
  }
  pw = maxx - minx;
  ph = maxy - miny;
  ox = m.a * px + m.b * py - minx;
  oy = m.c * px + m.d * py - miny;
}

/// Reference half-perimeter wirelength from raw circuit data.
inline long long refHpwl(const Circuit &c) {
  long long tot = 0;
  for (int n = 0; n < c.nbNets(); ++n) {
    int b = c.netLimits_[n], e = c.netLimits_[n + 1];
    if (b >= e) continue;
    long long minx = LLONG_MAX, miny = LLONG_MAX, maxx = LLONG_MIN,
              maxy = LLONG_MIN;
    for (int k = b; k < e; ++k) {
      int cell = c.pinCells_[k];
      long long pw, ph, ox, oy;
      refTransform(c.cellOrientation_[cell], c.cellWidth_[cell],
                   c.cellHeight_[cell], c.pinXOffsets_[k], c.pinYOffsets_[k],
                   pw, ph, ox, oy);
      long long x = c.cellX_[cell] + ox, y = c.cellY_[cell] + oy;
      minx = std::min(minx, x), maxx = std::max(maxx, x);
      miny = std::min(miny, y), maxy = std::max(maxy, y);
    }
    tot += (maxx - minx) + (maxy - miny);
  }
  return tot;
}

inline long long refPlacedW(const Circuit &c, int i) {
  return refIsTurn(c.cellOrientation_[i]) ? c.cellHeight_[i] : c.cellWidth_[i];
}
inline long long refPlacedH(const Circuit &c, int i) {
  return refIsTurn(c.cellOrientation_[i]) ? c.cellWidth_[i] : c.cellHeight_[i];
}

// ---------------------------------------------------------------- frame
/// Everything a placement stage must not change (plus the placement itself).
struct Frame {
  std::vector<int> w, h, x, y, netLimits, pinCells, pinX, pinY;
  std::vector<int> orient, polarity;
  std::vector<bool> fixed, obstruction;
  std::vector<float> weights;
  std::vector<std::vector<int>> rows;  // minX,maxX,minY,maxY,orientation
};
inline Frame snap(const Circuit &c) {
  Frame f;
  f.w = c.cellWidth();
  f.h = c.cellHeight();
  f.x = c.cellX();
  f.y = c.cellY();
  for (auto o : c.cellOrientation()) f.orient.push_back((int)o);
  for (auto p : c.cellRowPolarity()) f.polarity.push_back((int)p);
  f.fixed = c.cellIsFixed();
  f.obstruction = c.cellIsObstruction();
  f.netLimits = c.netLimits_;
  f.pinCells = c.pinCells_;
  f.pinX = c.pinXOffsets_;
  f.pinY = c.pinYOffsets_;
  f.weights = c.netWeights_;
  for (const Row &r : c.rows())
    f.rows.push_back({r.minX, r.maxX, r.minY, r.maxY, (int)r.orientation});
  return f;
}
/// Compare two frames.  `movableMayMove`: x/y/orientation of movable cells are
/// exempt.  `orientFrozen`: orientations of all cells must be equal anyway.
inline std::string diffFrame(const Frame &a, const Frame &b,
                             bool movableMayMove, bool orientFrozen) {
  std::ostringstream s;
  if (a.w != b.w) return "cell widths changed";
  if (a.h != b.h) return "cell heights changed";
  if (a.fixed != b.fixed) return "fixed flags changed";
  if (a.obstruction != b.obstruction) return "obstruction flags changed";
  if (a.polarity != b.polarity) return "polarities changed";
  if (a.netLimits != b.netLimits) return "net limits changed";
  if (a.pinCells != b.pinCells) return "pin cells changed";
  if (a.pinX != b.pinX) return "pin x offsets changed";
  if (a.pinY != b.pinY) return "pin y offsets changed";
  if (a.weights.size() != b.weights.size()) return "net weights changed";
  for (size_t i = 0; i < a.weights.size(); ++i)
    if (!(a.weights[i] == b.weights[i])) return "net weights changed";
  if (a.rows != b.rows) return "rows changed";
  if (a.x.size() != b.x.size() || a.y.size() != b.y.size() ||
      a.orient.size() != b.orient.size())
    return "placement vectors resized";
  for (size_t i = 0; i < a.x.size(); ++i) {
    bool exempt = movableMayMove && !a.fixed[i];
    if (!exempt && (a.x[i] != b.x[i] || a.y[i] != b.y[i])) {
      s << (a.fixed[i] ? "fixed" : "movable") << " cell " << i << " moved ("
        << a.x[i] << "," << a.y[i] << ")->(" << b.x[i] << "," << b.y[i] << ")";
      return s.str();
    }
    if ((!exempt || orientFrozen) && a.orient[i] != b.orient[i]) {
      s << (a.fixed[i] ? "fixed" : "movable") << " cell " << i
        << " orientation changed " << a.orient[i] << "->" << b.orient[i];
      return s.str();
    }
  }
  return "";
}

// ---------------------------------------------------------------- free space
struct Seg {
  long long minX, maxX;
};
/// Free segments of a row by a sweep over blocked column ranges: column
/// [x,x+1) is blocked iff some obstacle of positive area open-intersects
/// [x,x+1) x [minY,maxY).
inline std::vector<Seg> freeSegments(const Rectangle &row,
                                     const std::vector<Rectangle> &obstacles) {
  std::vector<std::pair<long long, long long>> blocked;
  for (const Rectangle &o : obstacles) {
    if (o.maxX <= o.minX || o.maxY <= o.minY) continue;      // empty
    if (o.maxY <= row.minY || o.minY >= row.maxY) continue;  // no y overlap
    long long a = std::max<long long>(o.minX, row.minX);
    long long b = std::min<long long>(o.maxX, row.maxX);
    if (a < b) blocked.push_back({a, b});
  }
  std::sort(blocked.begin(), blocked.end());
  std::vector<Seg> out;
  long long cur = row.minX;
  for (auto &bl : blocked) {
    if (bl.first > cur) out.push_back({cur, bl.first});
    cur = std::max(cur, bl.second);
  }
  if (cur < row.maxX) out.push_back({cur, row.maxX});
  return out;
}

inline std::vector<Rectangle> fixedObstacles(const Circuit &c) {
  std::vector<Rectangle> obs;
  for (int i = 0; i < c.nbCells(); ++i) {
    if (!c.cellIsFixed_[i] || !c.cellIsObstruction_[i]) continue;
    long long pw = refPlacedW(c, i), ph = refPlacedH(c, i);
    obs.emplace_back(c.cellX_[i], (int)(c.cellX_[i] + pw), c.cellY_[i],
                     (int)(c.cellY_[i] + ph));
  }
  return obs;
}

// ---------------------------------------------------------------- legality
/// The statement of C01: bottom edge on a row boundary, each row-high strip
/// inside one obstruction-free row segment, no two movable cells overlap.
/// Returns "" when legal, else a description.
inline std::string legalityError(const Circuit &c) {
  if (c.nbRows() == 0) return "no rows";
  long long rh = c.rows()[0].height();
  std::vector<Rectangle> obs = fixedObstacles(c);
  // free segments per y level
  std::map<long long, std::vector<Seg>> free;
  for (const Row &r : c.rows()) {
    auto segs = freeSegments(r, obs);
    auto &v = free[r.minY];
    v.insert(v.end(), segs.begin(), segs.end());
  }
  struct Box {
    long long x0, x1, y0, y1;
    int cell;
  };
  std::vector<Box> boxes;
  for (int i = 0; i < c.nbCells(); ++i) {
    if (c.cellIsFixed_[i]) continue;
    long long pw = refPlacedW(c, i), ph = refPlacedH(c, i);
    long long x = c.cellX_[i], y = c.cellY_[i];
    std::ostringstream s;
    if (ph <= 0 || ph % rh != 0) {
      s << "cell " << i << " placed height " << ph
        << " is not a positive multiple of the row height " << rh;
      return s.str();
    }
    for (long long k = 0; k < ph / rh; ++k) {
      auto it = free.find(y + k * rh);
      bool ok = false;
      if (it != free.end()) {
        for (const Seg &sg : it->second)
          if (sg.minX <= x && x + pw <= sg.maxX) ok = true;
      }
      if (!ok) {
        s << "cell " << i << " [" << x << "," << x + pw << ")x[" << y << ","
          << y + ph << ") strip " << k
          << (it == free.end() ? " is not on a row" : " is not inside one free row segment");
        return s.str();
      }
    }
    boxes.push_back({x, x + pw, y, y + ph, i});
  }
  std::sort(boxes.begin(), boxes.end(),
            [](const Box &a, const Box &b) { return a.x0 < b.x0; });
  for (size_t i = 0; i < boxes.size(); ++i)
    for (size_t j = i + 1; j < boxes.size() && boxes[j].x0 < boxes[i].x1; ++j) {
      if (boxes[i].y0 < boxes[j].y1 && boxes[j].y0 < boxes[i].y1 &&
          boxes[i].x0 < boxes[i].x1 && boxes[j].x0 < boxes[j].x1) {
        std::ostringstream s;
        s << "cells " << boxes[i].cell << " and " << boxes[j].cell << " overlap";
        return s.str();
      }
    }
  return "";
}

// ---------------------------------------------------------------- polarity
inline int refOpposite(int rowOrient) {
  // N<->FS, S<->FN (the unturned ones are all that rows may have)
  switch ((CellOrientation)rowOrient) {
    case CellOrientation::N: return (int)CellOrientation::FS;
    case CellOrientation::FS: return (int)CellOrientation::N;
    case CellOrientation::S: return (int)CellOrientation::FN;
    case CellOrientation::FN: return (int)CellOrientation::S;
    case CellOrientation::W: return (int)CellOrientation::FE;
    case CellOrientation::FE: return (int)CellOrientation::W;
    case CellOrientation::E: return (int)CellOrientation::FW;
    case CellOrientation::FW: return (int)CellOrientation::E;
    default: return (int)CellOrientation::INVALID;
  }
}
/// Orientation prescribed for a polarity in a row; INVALID if forbidden;
/// UNKNOWN for polarity ANY ("keep").
inline int refOrientationInRow(CellRowPolarity p, int rowOrient) {
  auto ro = (CellOrientation)rowOrient;
  switch (p) {
    case CellRowPolarity::ANY: return (int)CellOrientation::UNKNOWN;
    case CellRowPolarity::SAME: return rowOrient;
    case CellRowPolarity::OPPOSITE: return refOpposite(rowOrient);
    case CellRowPolarity::NW:
      return (ro == CellOrientation::N || ro == CellOrientation::FN ||
              ro == CellOrientation::W || ro == CellOrientation::FW)
                 ? rowOrient
                 : (int)CellOrientation::INVALID;
    case CellRowPolarity::SE:
      return (ro == CellOrientation::S || ro == CellOrientation::FS ||
              ro == CellOrientation::E || ro == CellOrientation::FE)
                 ? rowOrient
                 : (int)CellOrientation::INVALID;
  }
  return (int)CellOrientation::INVALID;
}
/// "" when every movable cell satisfies its polarity; `before` gives the
/// orientations cells without polarity must have kept.
inline std::string polarityError(const Circuit &c,
                                 const std::vector<int> &orientBefore) {
  std::map<long long, int> rowOrientAtY;
  for (const Row &r : c.rows()) rowOrientAtY[r.minY] = (int)r.orientation;
  for (int i = 0; i < c.nbCells(); ++i) {
    if (c.cellIsFixed_[i]) continue;
    int o = (int)c.cellOrientation_[i];
    std::ostringstream s;
    if (o == (int)CellOrientation::INVALID || o == (int)CellOrientation::UNKNOWN || o < 0 || o > 9) {
      s << "cell " << i << " has orientation value " << o << " (INVALID/UNKNOWN)";
      return s.str();
    }
    CellRowPolarity p = c.cellRowPolarity_[i];
    if (p == CellRowPolarity::ANY) {
      if (o != orientBefore[i]) {
        s << "cell " << i << " without polarity changed orientation "
          << orientBefore[i] << "->" << o;
        return s.str();
      }
      continue;
    }
    auto it = rowOrientAtY.find(c.cellY_[i]);
    if (it == rowOrientAtY.end()) {
      s << "cell " << i << " is not on a row";
      return s.str();
    }
    int want = refOrientationInRow(p, it->second);
    if (want == (int)CellOrientation::INVALID) {
      s << "cell " << i << " with polarity " << (int)p
        << " sits on a row of orientation " << it->second << " that its polarity forbids";
      return s.str();
    }
    if (o != want) {
      s << "cell " << i << " with polarity " << (int)p << " on a row of orientation "
        << it->second << " has orientation " << o << ", prescribed " << want;
      return s.str();
    }
  }
  return "";
}

}  // namespace verif
