// Per-process evidence collection: counters, class histogram, set of distinct
// non-trivial case hashes, samples.  Written as JSON + a binary file of hashes
// so that the driver can aggregate (union of hash sets) across workers.
#pragma once

#include <unistd.h>

#include <cstdint>
#include <cstdio>
#include <cstdlib>
#include <functional>
#include <map>
#include <set>
#include <sstream>
#include <streambuf>
#include <string>
#include <unordered_set>
#include <vector>

#include "tape.hpp"

namespace verif {

/// Discards everything written to it (the library's progress chatter).
class NullBuf : public std::streambuf {
 public:
  int overflow(int c) override { return c; }
  std::streamsize xsputn(const char *, std::streamsize n) override { return n; }
};

inline std::string jsonEscape(const std::string &s) {
  std::string o;
  for (char c : s) {
    switch (c) {
      case '"': o += "\\\""; break;
      case '\\': o += "\\\\"; break;
      case '\n': o += "\\n"; break;
      case '\t': o += "\\t"; break;
      default:
        if ((unsigned char)c < 0x20) {
          char b[8];
          std::snprintf(b, sizeof b, "\\u%04x", c);
          o += b;
        } else {
          o += c;
        }
    }
  }
  return o;
}

template <class V>
std::string jsonArr(const V &v) {
  std::ostringstream s;
  s << "[";
  bool first = true;
  for (auto x : v) {
    if (!first) s << ",";
    first = false;
    s << x;
  }
  s << "]";
  return s.str();
}

struct Report {
  long long evaluations = 0;
  long long nontrivialCount = 0;
  long long excluded = 0;   // cases (or sub-cases) skipped as a known finding
  long long discarded = 0;  // cases outside the property's domain
  long long exhaustiveStates = 0;
  bool exhaustiveDone = false;
  std::map<std::string, long long> cls;
  std::unordered_set<uint64_t> distinct;
  std::vector<std::string> samples;  // JSON values
  std::vector<std::string> notes;
  std::set<std::string> excludeSlugs;
  bool frozen = false;  // set while shrinking: nothing is recorded
  std::string failReason;
  int tier = 0;  // 0 quick, 1 thorough
  size_t maxSamples = 4;
  size_t maxDistinct = 4000000;

  Report() {
    if (const char *e = std::getenv("VERIF_EXCLUDE")) {
      std::string s(e), cur;
      for (char c : s) {
        if (c == ',') {
          if (!cur.empty()) excludeSlugs.insert(cur);
          cur.clear();
        } else {
          cur += c;
        }
      }
      if (!cur.empty()) excludeSlugs.insert(cur);
    }
    if (const char *t = std::getenv("VERIF_TIER"))
      tier = std::string(t) == "thorough" ? 1 : 0;
  }

  bool thorough() const { return tier == 1; }

  /// Exhaustive enumerators call this once per instance: re-arms a watchdog so
  /// that a shard stuck in one instance is killed (SIGALRM) instead of running
  /// into the driver's hard timeout.
  unsigned long hb = 0;
  void heartbeat() {
    if ((++hb & 255) == 0) alarm(90);
  }

  /// Is the known finding `slug` active (its class must be excluded)?
  bool known(const std::string &slug) const {
    return excludeSlugs.count(slug) != 0;
  }
  /// Record that a case (or part of one) was skipped because of `slug`.
  void exclude(const std::string &slug) {
    if (frozen) return;
    ++excluded;
    ++cls["excluded:" + slug];
  }
  void discard(const std::string &why) {
    if (frozen) return;
    ++discarded;
    ++cls["discarded:" + why];
  }
  void beginCase() {
    if (frozen) return;
    ++evaluations;
  }
  void classify(const std::string &label, long long n = 1) {
    if (frozen) return;
    cls[label] += n;
  }
  /// Declare the current case non-trivial; `hash` identifies the decoded case.
  void nontrivial(uint64_t hash,
                  const std::function<std::string()> &sample = nullptr) {
    if (frozen) return;
    ++nontrivialCount;
    if (distinct.size() < maxDistinct) {
      bool isNew = distinct.insert(hash).second;
      if (isNew && sample && samples.size() < maxSamples &&
          (distinct.size() % 7 == 1 || distinct.size() < 3))
        samples.push_back(sample());
    }
  }
  void sample(const std::string &json) {
    if (frozen) return;
    if (samples.size() < maxSamples) samples.push_back(json);
  }
  void note(const std::string &n) {
    if (frozen) return;
    if (notes.size() < 20) notes.push_back(n);
  }
  /// Describe the class of the current case for crash triage: printed to
  /// stderr (replay front end only) so that a sanitizer abort can be matched
  /// against a known finding by case class, not only by call site.
  bool printTags = std::getenv("VERIF_PRINT_TAGS") != nullptr;
  void tag(const std::string &t) {
    if (printTags) {
      std::fprintf(stderr, "CASE-TAG: %s\n", t.c_str());
      std::fflush(stderr);
    }
  }
  /// Record a failure; returns false so that `return R.fail(...)` reads well.
  bool fail(const std::string &reason) {
    failReason = reason;
    return false;
  }

  std::string toJson() const {
    std::ostringstream s;
    s << "{\"evaluations\":" << evaluations
      << ",\"nontrivial\":" << nontrivialCount << ",\"excluded\":" << excluded
      << ",\"discarded\":" << discarded
      << ",\"exhaustive_states\":" << exhaustiveStates
      << ",\"exhaustive_done\":" << (exhaustiveDone ? "true" : "false")
      << ",\"distinct_local\":" << distinct.size() << ",\"classes\":{";
    bool first = true;
    for (auto &kv : cls) {
      if (!first) s << ",";
      first = false;
      s << "\"" << jsonEscape(kv.first) << "\":" << kv.second;
    }
    s << "},\"samples\":[";
    first = true;
    for (auto &x : samples) {
      if (!first) s << ",";
      first = false;
      s << x;
    }
    s << "],\"notes\":[";
    first = true;
    for (auto &x : notes) {
      if (!first) s << ",";
      first = false;
      s << "\"" << jsonEscape(x) << "\"";
    }
    s << "],\"fail_reason\":\"" << jsonEscape(failReason) << "\"}";
    return s.str();
  }

  void write(const std::string &prefix) const {
    {
      std::string tmp = prefix + ".json.tmp";
      FILE *f = std::fopen(tmp.c_str(), "w");
      if (f) {
        std::string j = toJson();
        std::fwrite(j.data(), 1, j.size(), f);
        std::fclose(f);
        std::rename(tmp.c_str(), (prefix + ".json").c_str());
      }
    }
    {
      std::string tmp = prefix + ".hashes.tmp";
      FILE *f = std::fopen(tmp.c_str(), "wb");
      if (f) {
        std::vector<uint64_t> v(distinct.begin(), distinct.end());
        if (!v.empty()) std::fwrite(v.data(), 8, v.size(), f);
        std::fclose(f);
        std::rename(tmp.c_str(), (prefix + ".hashes").c_str());
      }
    }
  }
};

}  // namespace verif

// Every property translation unit defines these.
namespace verif {
/// Decode one case from the tape, run it, judge it.  Returns true if the
/// property held (or the case was discarded), false after R.fail(reason).
bool prop(Tape &t, Report &R);
/// Optional exhaustive enumerator; shard k of n.  Returns false on failure
/// after writing the failing case as a tape into `failTape`.
bool exhaustive(Report &R, int shard, int nshards, Tape &failTape);
/// Name of the property (e.g. "C12").
const char *propId();
}  // namespace verif
