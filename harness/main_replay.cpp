// Plain regression front end: run `prop` on saved tapes, or run the
// exhaustive enumerator of the property.  No testing library involved.
//
// usage: <ID>_replay [--show] <tape>...        exit 0 = held, 1 = failed
//        <ID>_replay --exhaustive <k> <n> <out-prefix>
#include <iostream>
#include <sstream>

#include "evidence.hpp"

using namespace verif;

int main(int argc, char **argv) {
  // Leaked on purpose: std::cout is flushed by static destructors after main.
  NullBuf *sink = new NullBuf();
  std::cout.rdbuf(sink);
  if (argc >= 5 && std::string(argv[1]) == "--exhaustive") {
    int k = atoi(argv[2]), n = atoi(argv[3]);
    std::string prefix = argv[4];
    Report R;
    Tape failTape;
    alarm(120);
    bool ok = exhaustive(R, k, n, failTape);
    alarm(0);
    R.write(prefix);
    if (!ok) {
      failTape.save(prefix + ".fail.tape");
      FILE *f = std::fopen((prefix + ".fail.txt").c_str(), "w");
      if (f) {
        std::fputs(R.failReason.c_str(), f);
        std::fclose(f);
      }
      std::printf("FALSIFIED %s\n", R.failReason.c_str());
      return 1;
    }
    std::printf("OK states=%lld\n", R.exhaustiveStates);
    return 0;
  }
  bool show = false;
  int rc = 0;
  for (int i = 1; i < argc; ++i) {
    std::string a = argv[i];
    if (a == "--show") {
      show = true;
      continue;
    }
    Tape t;
    if (!Tape::load(a, t)) {
      std::printf("ERROR cannot read %s\n", a.c_str());
      return 2;
    }
    Report R;
    R.maxSamples = 1;
    R.beginCase();
    bool ok = prop(t, R);
    if (show) {
      std::printf("CASE %s\n", R.toJson().c_str());
    }
    if (ok) {
      std::printf("OK %s\n", a.c_str());
    } else {
      std::printf("FAIL %s :: %s\n", a.c_str(), R.failReason.c_str());
      rc = 1;
    }
    std::fflush(stdout);
  }
  return rc;
}
