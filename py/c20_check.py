#!/usr/bin/env python3-vt
"""C20 — export / read round trip (Hypothesis) and the binding table of module.cpp.

  c20_check.py --tool <c20_export> --repo <repo> --tier quick|thorough --seed N --out <result.json> --work <dir>
  c20_check.py --tool ... --replay <case.json>

The result JSON is turned into evidence by check.py.  Every random choice goes through
Hypothesis, seeded with VERIF_SEED; database=None, deadline=None.
"""
import argparse
import hashlib
import json
import os
import re
import subprocess
import sys
import time

HERE = os.path.dirname(os.path.abspath(__file__))

# ----------------------------------------------------------------------------
# independent reference geometry (DEF orientations as 2x2 matrices)
MAT = {0: (1, 0, 0, 1), 1: (-1, 0, 0, -1), 2: (0, -1, 1, 0), 3: (0, 1, -1, 0),
       4: (-1, 0, 0, 1), 5: (1, 0, 0, -1), 6: (0, 1, 1, 0), 7: (0, -1, -1, 0)}
ONAME = ["N", "S", "W", "E", "FN", "FS", "FW", "FE"]


def ref_pin(o, w, h, px, py):
    a, b, c, d = MAT[o]
    xs = [a * x + b * y for x in (0, w) for y in (0, h)]
    ys = [c * x + d * y for x in (0, w) for y in (0, h)]
    return a * px + b * py - min(xs), c * px + d * py - min(ys)


def ref_hpwl(cells, nets):
    tot = 0
    for net in nets:
        if not net:
            continue
        xs, ys = [], []
        for (ci, px, py) in net:
            c = cells[ci]
            ox, oy = ref_pin(c["o"], c["w"], c["h"], px, py)
            xs.append(c["x"] + ox)
            ys.append(c["y"] + oy)
        tot += max(xs) - min(xs) + max(ys) - min(ys)
    return tot


# ----------------------------------------------------------------------------
def load_reader(repo):
    sys.path.insert(0, HERE)  # coloquinte_pybind stand-in
    import coloquinte_pybind  # noqa: F401
    sys.path.insert(0, os.path.join(repo, "pycoloquinte"))
    import importlib
    if "coloquinte" in sys.modules:
        del sys.modules["coloquinte"]
    return importlib.import_module("coloquinte")


class Failure(Exception):
    pass


def run_case(case, tool, reader, work):
    """Export with the C++ library, read back with the package's reader, compare."""
    os.makedirs(work, exist_ok=True)
    for fn in os.listdir(work):
        if fn.endswith((".aux", ".nodes", ".nets", ".pl", ".scl")):
            os.remove(os.path.join(work, fn))
    base = case.get("base", "rt")
    if case.get("pre") and "." in base:
        # an earlier export of another circuit under the stem of the name (e.g. "ckt" before
        # "ckt.placed") must not be what the later .aux file points to
        decoy = dict(case, base=base.split(".")[0], pre=False,
                     cells=[dict(c, x=c["x"] + 1, o=0) for c in case["cells"]])
        export_case(decoy, tool, work)
    cpp_hpwl = export_case(case, tool, work)
    prefix = os.path.join(work, base)
    cells, rows, nets = case["cells"], case["rows"], case["nets"]
    check_back(case, cpp_hpwl, prefix, reader)


def export_case(case, tool, work):
    desc = os.path.join(work, "case.txt")
    prefix = os.path.join(work, case.get("base", "rt"))
    cells, rows, nets = case["cells"], case["rows"], case["nets"]
    with open(desc, "w") as f:
        f.write("%d\n" % len(cells))
        for c in cells:
            f.write("%d %d %d %d %d %d %d\n" % (c["w"], c["h"], c["x"], c["y"], c["o"], int(c["fixed"]), int(c["obs"])))
        f.write("%d\n" % len(rows))
        for r in rows:
            f.write("%d %d %d %d %d\n" % (r["minx"], r["maxx"], r["miny"], r["maxy"], r["o"]))
        f.write("%d\n" % len(nets))
        for net in nets:
            f.write("%d" % len(net))
            for (ci, px, py) in net:
                f.write(" %d %d %d" % (ci, px, py))
            f.write("\n")
    env = dict(os.environ)
    env["ASAN_OPTIONS"] = "detect_leaks=0:abort_on_error=1"
    env["UBSAN_OPTIONS"] = "halt_on_error=1:print_stacktrace=1"
    r = subprocess.run([tool, desc, prefix], stdout=subprocess.PIPE, stderr=subprocess.PIPE, env=env, timeout=60)
    if r.returncode != 0:
        raise Failure("export tool failed (exit %d): %s" % (r.returncode, r.stderr.decode("utf-8", "replace")[-400:]))
    cpp_hpwl = int(r.stdout.decode().strip())
    want_hpwl = ref_hpwl(cells, nets)
    if cpp_hpwl != want_hpwl:
        raise Failure("Circuit::hpwl() = %d but the reference wirelength of the case is %d" % (cpp_hpwl, want_hpwl))
    return cpp_hpwl


def check_back(case, cpp_hpwl, prefix, reader):
    cells, rows, nets = case["cells"], case["rows"], case["nets"]
    try:
        back = reader.Circuit.read_ispd(prefix + ".aux")
    except Exception as e:  # the package's reader must accept what the library writes
        raise Failure("read_ispd failed on the exported files: %r" % (e,))
    n = len(cells)
    if back.nb_cells != n:
        raise Failure("number of cells %d -> %d" % (n, back.nb_cells))
    for i, c in enumerate(cells):
        got = (back.cell_width[i], back.cell_height[i], bool(back.cell_is_fixed[i]), back.cell_x[i], back.cell_y[i],
               back.cell_orientation[i].name)
        want = (c["w"], c["h"], bool(c["fixed"]), c["x"], c["y"], ONAME[c["o"]])
        if got != want:
            raise Failure("cell %d (w,h,fixed,x,y,orientation) exported as %r read back as %r" % (i, want, got))
    if len(back.nets) != len(nets):
        raise Failure("number of nets %d -> %d" % (len(nets), len(back.nets)))
    for k, net in enumerate(nets):
        bc, bx, by, _ = back.nets[k]
        if list(bc) != [p[0] for p in net]:
            raise Failure("net %d connectivity %r read back as %r" % (k, [p[0] for p in net], list(bc)))
        for q, (ci, px, py) in enumerate(net):
            if (bx[q], by[q]) != (px, py):
                raise Failure("net %d pin %d on cell %d (%dx%d, orientation %s): offset (%d,%d) read back as (%d,%d)" % (
                    k, q, ci, cells[ci]["w"], cells[ci]["h"], ONAME[cells[ci]["o"]], px, py, bx[q], by[q]))
    if len(back.rows) != len(rows):
        raise Failure("number of rows %d -> %d" % (len(rows), len(back.rows)))
    for i, r in enumerate(rows):
        b = back.rows[i]
        got = (b.min_x, b.max_x, b.min_y, b.max_y, b.orientation.name)
        want = (r["minx"], r["maxx"], r["miny"], r["maxy"], ONAME[r["o"]])
        if got != want:
            raise Failure("row %d (min_x,max_x,min_y,max_y,orientation) exported as %r read back as %r" % (i, want, got))
    # and therefore the same wirelength
    back_cells = [dict(w=back.cell_width[i], h=back.cell_height[i], x=back.cell_x[i], y=back.cell_y[i],
                       o=ONAME.index(back.cell_orientation[i].name)) for i in range(n)]
    back_nets = [[(c, x, y) for c, x, y in zip(bn[0], bn[1], bn[2])] for bn in back.nets]
    if ref_hpwl(back_cells, back_nets) != cpp_hpwl:
        raise Failure("wirelength changes in the round trip: %d -> %d" % (cpp_hpwl, ref_hpwl(back_cells, back_nets)))


def nontrivial(case):
    for net in case["nets"]:
        for (ci, px, py) in net:
            c = case["cells"][ci]
            if c["o"] != 0 and (px, py) != (c["w"] - px, c["h"] - py):
                return True
    return any(r["o"] != 0 for r in case["rows"])


def case_hash(case):
    return hashlib.sha256(json.dumps(case, sort_keys=True).encode()).hexdigest()[:16]


# ----------------------------------------------------------------------------
def strategies():
    from hypothesis import strategies as st

    @st.composite
    def circuit(draw):
        scale = draw(st.sampled_from([1, 1, 10, 100, 1000]))
        n = draw(st.integers(1, 8))
        cells = []
        for _ in range(n):
            w = draw(st.integers(0, 20)) * scale
            h = draw(st.integers(0, 12)) * scale
            placed = draw(st.booleans())
            cells.append(dict(
                w=w, h=h,
                x=draw(st.integers(-50, 50)) * scale if placed else 0,
                y=draw(st.integers(-50, 50)) * scale if placed else 0,
                o=draw(st.integers(0, 7)) if placed else 0,
                fixed=draw(st.booleans()), obs=draw(st.booleans())))
        rows = []
        nr = draw(st.integers(1, 5))
        rh = draw(st.integers(1, 12)) * scale
        x0 = draw(st.integers(-40, 40)) * scale
        y0 = draw(st.integers(-40, 40)) * scale
        for r in range(nr):
            nseg = draw(st.integers(1, 2))
            x = x0
            for _ in range(nseg):
                wdt = draw(st.integers(1, 60)) * scale
                rows.append(dict(minx=x, maxx=x + wdt, miny=y0 + r * rh, maxy=y0 + (r + 1) * rh,
                                 o=draw(st.sampled_from([0, 5, 1, 4]))))
                x += wdt + draw(st.integers(1, 5)) * scale
        nets = []
        for _ in range(draw(st.integers(0, 8))):
            deg = draw(st.integers(1, 5))
            net = []
            for _ in range(deg):
                ci = draw(st.integers(0, n - 1))
                c = cells[ci]
                cls = draw(st.integers(0, 2))
                if cls == 0:
                    px, py = draw(st.integers(0, max(0, c["w"]))), draw(st.integers(0, max(0, c["h"])))
                elif cls == 1:
                    px, py = draw(st.sampled_from([0, c["w"]])), draw(st.sampled_from([0, c["h"]]))
                else:
                    px = draw(st.integers(-c["w"] - scale, 2 * c["w"] + scale))
                    py = draw(st.integers(-c["h"] - scale, 2 * c["h"] + scale))
                net.append((ci, px, py))
            nets.append(net)
        # the name handed to exportIspd (dots in the last component are ordinary characters), and
        # whether another circuit was exported under the stem of that name before
        base = draw(st.sampled_from(["rt", "rt", "rt.placed", "design.v2", "a.b.c", "ckt-1_final", "x"]))
        pre = draw(st.booleans())
        return dict(cells=cells, rows=rows, nets=nets, base=base, pre=pre)

    return circuit()


# ----------------------------------------------------------------------------
# binding table
def camel(snake):
    parts = snake.split("_")
    return parts[0] + "".join(p[:1].upper() + p[1:] for p in parts[1:])


def check_bindings(repo):
    """Every py::enum_ value, def_readwrite, def_property[_readonly] and .def of module.cpp must name the C++
    entity of the same name.  Returns (entries, problems)."""
    src = open(os.path.join(repo, "pycoloquinte", "module.cpp")).read()
    hpp = open(os.path.join(repo, "src", "coloquinte.hpp")).read()
    src = re.sub(r'R"pbdoc\(.*?\)pbdoc"', '""', src, flags=re.S)
    entries, problems = [], []
    # split into blocks, one per py::enum_ / py::class_
    blocks = re.split(r"(?=py::(?:enum_|class_)<)", src)
    for blk in blocks:
        m = re.match(r"py::(enum_|class_)<\s*([\w:]+)(?:\s*,\s*[\w:]+)*\s*>\s*\(\s*m\s*,\s*\"(\w+)\"", blk)
        if not m:
            continue
        kind, cpp_type, py_name = m.groups()
        stmt = blk.split(";", 1)[0]
        if kind == "enum_":
            for vm in re.finditer(r'\.value\(\s*"(\w+)"\s*,\s*(\w+)::(\w+)', stmt):
                name, e2, y = vm.groups()
                ok = e2 == cpp_type and name == y
                exists = re.search(r"enum class %s\b[^}]*\b%s\b" % (cpp_type, y), hpp, flags=re.S) is not None
                entries.append("%s.%s -> %s::%s" % (py_name, name, e2, y))
                if not ok:
                    problems.append("enum value %s.%s is bound to %s::%s" % (py_name, name, e2, y))
                elif not exists:
                    problems.append("enum value %s::%s does not exist in coloquinte.hpp" % (e2, y))
            continue
        for dm in re.finditer(r'\.def_readwrite\(\s*"(\w+)"\s*,\s*&(\w+)::(\w+)\s*\)', stmt):
            name, cls, member = dm.groups()
            entries.append("%s.%s -> %s::%s" % (py_name, name, cls, member))
            if cls != cpp_type or member != camel(name):
                problems.append("attribute %s.%s is bound to %s::%s" % (py_name, name, cls, member))
            elif re.search(r"\b%s\b" % member, hpp) is None:
                problems.append("member %s::%s does not exist in coloquinte.hpp" % (cls, member))
        for dm in re.finditer(r'\.def_property(_readonly)?\(\s*"(\w+)"\s*,\s*&(\w+)::(\w+)\s*(?:,\s*&(\w+)::(\w+))?', stmt):
            ro, name, cls, getter, cls2, setter = dm.groups()
            entries.append("%s.%s -> %s::%s%s" % (py_name, name, cls, getter, "/" + setter if setter else ""))
            cm = camel(name)
            if cls != cpp_type or getter not in (cm, "compute" + cm[:1].upper() + cm[1:]):
                problems.append("property %s.%s getter is %s::%s" % (py_name, name, cls, getter))
            elif re.search(r"\b%s\b" % getter, hpp) is None:
                problems.append("getter %s::%s does not exist in coloquinte.hpp" % (cls, getter))
            if setter is not None:
                if cls2 != cpp_type or setter != "set" + cm[:1].upper() + cm[1:]:
                    problems.append("property %s.%s setter is %s::%s" % (py_name, name, cls2, setter))
                elif re.search(r"\b%s\b" % setter, hpp) is None:
                    problems.append("setter %s::%s does not exist in coloquinte.hpp" % (cls2, setter))
            elif not ro:
                problems.append("writable property %s.%s has no setter" % (py_name, name))
        for dm in re.finditer(r'\.def\(\s*"(\w+)"\s*,\s*&(\w+)::(\w+)', stmt):
            name, cls, fn = dm.groups()
            entries.append("%s.%s() -> %s::%s" % (py_name, name, cls, fn))
            want = "toString" if name.startswith("__") else camel(name)
            if cls != cpp_type or fn != want:
                problems.append("method %s.%s is bound to %s::%s" % (py_name, name, cls, fn))
            elif re.search(r"\b%s\b" % fn, hpp) is None:
                problems.append("method %s::%s does not exist in coloquinte.hpp" % (cls, fn))
        for dm in re.finditer(r'\.def\(\s*"(\w+)"\s*,\s*\[\]\(([^)]*)\)\s*\{(.*?)\}\s*,', stmt, flags=re.S):
            name, _, body = dm.groups()
            calls = re.findall(r"circuit\.(\w+)\(", body)
            entries.append("%s.%s() -> lambda calling %s" % (py_name, name, ",".join(calls)))
            if calls != [camel(name)]:
                problems.append("method %s.%s is a lambda calling %s" % (py_name, name, calls))
    return entries, problems


# ----------------------------------------------------------------------------
def main():
    ap = argparse.ArgumentParser()
    ap.add_argument("--tool", required=True)
    ap.add_argument("--repo", default="/repo")
    ap.add_argument("--tier", default="quick")
    ap.add_argument("--seed", type=int, default=1)
    ap.add_argument("--out")
    ap.add_argument("--work", default="/tmp/c20-work")
    ap.add_argument("--replay")
    ap.add_argument("--viol-dir", default=os.path.join(os.path.dirname(HERE), "violations", "C20"))
    ap.add_argument("--replays", default=os.path.join(os.path.dirname(HERE), "replays", "C20"))
    a = ap.parse_args()
    reader = load_reader(a.repo)

    if a.replay:
        if a.replay.endswith("bindings.json"):
            entries, problems = check_bindings(a.repo)
            for p in problems:
                print("FAIL bindings :: " + p)
            return 1 if problems else 0
        case = json.load(open(a.replay))
        try:
            run_case(case, a.tool, reader, a.work)
        except Failure as e:
            print("FAIL %s :: %s" % (a.replay, e))
            return 1
        print("OK " + a.replay)
        return 0

    t0 = time.time()
    result = {"evaluations": 0, "distinct": 0, "samples": [], "failures": [], "programs": 0,
              "binding_problems": [], "replayed": 0, "replay_failures": []}
    # 1. replay tier
    if os.path.isdir(a.replays):
        for fn in sorted(os.listdir(a.replays)):
            if not fn.endswith(".json") or fn.endswith("bindings.json"):
                continue
            case = json.load(open(os.path.join(a.replays, fn)))
            result["replayed"] += 1
            try:
                run_case(case, a.tool, reader, a.work)
            except Failure as e:
                result["replay_failures"].append({"replay": os.path.join("replays", "C20", fn), "reason": str(e)})
    # 2. binding table (exhaustive over the bindings of module.cpp)
    entries, problems = check_bindings(a.repo)
    result["programs"] = len(entries)
    result["binding_samples"] = entries[:3] + entries[len(entries) // 2:len(entries) // 2 + 2]
    result["binding_problems"] = problems
    # 3. generated round trips
    from hypothesis import given, settings, seed, HealthCheck
    seen = set()
    state = {"n": 0}
    nmax = 1500 if a.tier == "quick" else 20000

    @seed(a.seed)
    @settings(max_examples=nmax, database=None, deadline=None, report_multiple_bugs=False,
              suppress_health_check=list(HealthCheck), print_blob=False)
    @given(strategies())
    def prop(case):
        state["n"] += 1
        if nontrivial(case):
            hsh = case_hash(case)
            if hsh not in seen:
                seen.add(hsh)
                if len(result["samples"]) < 4 and len(seen) % 50 == 1:
                    result["samples"].append(case)
        try:
            run_case(case, a.tool, reader, a.work)
        except Failure as e:
            state["last_fail"] = (case, str(e))
            raise AssertionError(str(e))

    try:
        prop()
    except AssertionError:
        case, reason = state.get("last_fail", (None, "assertion"))
        if case is not None:
            os.makedirs(a.viol_dir, exist_ok=True)
            path = os.path.join(a.viol_dir, "case-%s.json" % case_hash(case))
            json.dump(case, open(path, "w"), indent=1)
            result["failures"].append({"replay": path, "reason": reason})
    result["evaluations"] = state["n"]
    result["distinct"] = len(seen)
    result["wall_s"] = time.time() - t0
    if a.out:
        json.dump(result, open(a.out, "w"), indent=1)
    else:
        print(json.dumps(result, indent=1)[:3000])
    return 0


if __name__ == "__main__":
    sys.exit(main())
