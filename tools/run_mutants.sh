#!/bin/bash
# usage: tools/run_mutants.sh <ID> [tier]   run every mutant under mutants/<ID>/ against check <ID>
cd "$(dirname "$0")/.."
id=$1; tier=${2:-quick}
for m in mutants/$id/*.diff; do
  timeout 1800 tools/mutant.py "$m" "$id" --tier "$tier" 2>&1 | grep -v WARNING | cut -c1-400
done
