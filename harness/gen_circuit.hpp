// Shared circuit generator: tape -> CircuitSpec -> coloquinte::Circuit.
// Constructed, never rejected: rows -> fixed cells -> movable cells ->
// positions -> nets -> parameters.  Every dial is labelled so that the
// evidence shows the distribution actually produced.
#pragma once

#include <cmath>
#include <set>
#include <sstream>

#include "evidence.hpp"
#include "oracles.hpp"

namespace verif {
using coloquinte::ColoquinteParameters;
using coloquinte::LegalizationModel;
using coloquinte::NetModelOption;

struct GenOpts {
  int maxCells = 24;          // movable cells
  int maxLevels = 8;          // y levels of rows
  int maxFixed = 6;
  bool multiRow = true;       // multi-row cells and movable macros
  bool turned = true;         // E/W/FW/FE orientations on cells without polarity
  bool rowsWide = false;      // every segment at least 4 row heights wide (C06 domain)
  int forceScale = -1;        // -1 tape, 0 unit, 1 decade, 2 nano
  int polarisedPct = 30;      // share of movable cells with a polarity
  bool mismatchedPolarity = true;
  int mismatchPct = 10;       // share of polarised cells whose polarity does not match their row count (NW/SE on odd, SAME/OPPOSITE on even)
  bool overfull = true;       // allow the over-full utilisation class
  bool nets = true;
  bool legalStart = false;    // construct a legal start (row-high cells only)
  bool zeroSizeMovable = false;
  bool globalDomain = false;  // C06 domain: wide rows, a movable row-high cell, bounded bin count
  bool anchorNear = false;    // keep the area within 50 row heights of the origin
  int anchorPct = 0;          // probability (%) of giving every net component a fixed pin
  bool boundMinHeight = false;  // resource bound only: no positive cell height below half a row
  long long maxCoord = 1LL << 22;
};

struct CellSpec {
  int w = 1, h = 1;  // unrotated sizes
  int x = 0, y = 0;
  int orient = 0;    // CellOrientation
  int polarity = 0;  // CellRowPolarity
  bool fixed = false, obstruction = true;
  const char *kind = "";
};
struct NetSpec {
  std::vector<int> cells, xo, yo;
  float weight = 1.0f;
};

struct CircuitSpec;
/// Object-history mode (see HistoryScope below): when the word is 1 (mod 4), CircuitSpec::build()
/// returns a circuit with the same contents reached through an object history.
inline uint32_t &historyWord() {
  static thread_local uint32_t w = 0;
  return w;
}
inline coloquinte::Circuit buildThroughHistory(const CircuitSpec &s, uint32_t word);
inline bool &inPermutedBuild() {
  static thread_local bool b = false;
  return b;
}

struct CircuitSpec {
  int rowHeight = 1;
  int scale = 0;
  std::vector<Row> rows;
  std::vector<CellSpec> cells;
  std::vector<NetSpec> nets;
  bool useSetNets = false;
  std::set<std::string> labels;

  int nbMovable() const {
    int n = 0;
    for (auto &c : cells) n += !c.fixed;
    return n;
  }
  long long placedW(const CellSpec &c) const { return refIsTurn((CellOrientation)c.orient) ? c.h : c.w; }
  long long placedH(const CellSpec &c) const { return refIsTurn((CellOrientation)c.orient) ? c.w : c.h; }

  Circuit build() const {
    uint32_t hw = historyWord();
    if (hw % 4 == 1) return buildThroughHistory(*this, hw);
    return buildFresh();
  }
  Circuit buildFresh() const {
    if ((historyWord() >> 2) % 4 == 1 && rows.size() > 1 && !inPermutedBuild()) {
      // presentation mode: the rows are handed to the circuit in another order
      CircuitSpec p = *this;
      uint32_t k = historyWord() >> 4;
      if (k % 2) std::reverse(p.rows.begin(), p.rows.end());
      else std::rotate(p.rows.begin(), p.rows.begin() + 1 + (k >> 1) % (p.rows.size() - 1), p.rows.end());
      inPermutedBuild() = true;
      Circuit c = p.buildFresh();
      inPermutedBuild() = false;
      return c;
    }
    int n = cells.size();
    Circuit c(n);
    std::vector<int> w(n), h(n), x(n), y(n);
    std::vector<bool> fx(n), ob(n);
    std::vector<CellOrientation> o(n);
    std::vector<CellRowPolarity> p(n);
    for (int i = 0; i < n; ++i) {
      w[i] = cells[i].w, h[i] = cells[i].h, x[i] = cells[i].x, y[i] = cells[i].y;
      fx[i] = cells[i].fixed, ob[i] = cells[i].obstruction;
      o[i] = (CellOrientation)cells[i].orient;
      p[i] = (CellRowPolarity)cells[i].polarity;
    }
    c.setCellWidth(w);
    c.setCellHeight(h);
    c.setCellX(x);
    c.setCellY(y);
    c.setCellIsFixed(fx);
    c.setCellIsObstruction(ob);
    c.setCellOrientation(o);
    c.setCellRowPolarity(p);
    c.setRows(rows);
    if (useSetNets) {
      std::vector<int> lim = {0}, pc, px, py;
      std::vector<float> wt;
      for (auto &nt : nets) {
        pc.insert(pc.end(), nt.cells.begin(), nt.cells.end());
        px.insert(px.end(), nt.xo.begin(), nt.xo.end());
        py.insert(py.end(), nt.yo.begin(), nt.yo.end());
        lim.push_back((int)pc.size());
        wt.push_back(nt.weight);
      }
      c.setNets(lim, pc, px, py, wt);
    } else {
      for (auto &nt : nets) c.addNet(nt.cells, nt.xo, nt.yo, nt.weight);
    }
    c.hasCellSizeUpdate_ = false;
    c.hasNetUpdate_ = false;
    return c;
  }

  uint64_t hash() const {
    Hasher h;
    h.add(rowHeight);
    for (auto &r : rows) h.add(r.minX).add(r.maxX).add(r.minY).add((int)r.orientation);
    for (auto &c : cells)
      h.add(c.w).add(c.h).add(c.x).add(c.y).add(c.orient).add(c.polarity).add(c.fixed).add(c.obstruction);
    for (auto &n : nets) h.addv(n.cells).addv(n.xo).addv(n.yo).addd(n.weight);
    return h.h;
  }

  std::string json(size_t maxCells = 40) const {
    std::ostringstream s;
    s << "{\"rowHeight\":" << rowHeight << ",\"rows\":[";
    for (size_t i = 0; i < rows.size() && i < 24; ++i)
      s << (i ? "," : "") << "[" << rows[i].minX << "," << rows[i].maxX << "," << rows[i].minY << "," << (int)rows[i].orientation << "]";
    s << "],\"cells\":[";
    for (size_t i = 0; i < cells.size() && i < maxCells; ++i) {
      auto &c = cells[i];
      s << (i ? "," : "") << "{\"w\":" << c.w << ",\"h\":" << c.h << ",\"x\":" << c.x << ",\"y\":" << c.y
        << ",\"o\":" << c.orient << ",\"pol\":" << c.polarity << (c.fixed ? (c.obstruction ? ",\"fixed\":\"obstruction\"" : ",\"fixed\":\"non-obstruction\"") : "")
        << "}";
    }
    s << "],\"nb_cells\":" << cells.size() << ",\"nb_nets\":" << nets.size() << ",\"labels\":[";
    bool first = true;
    for (auto &l : labels) {
      s << (first ? "" : ",") << "\"" << l << "\"";
      first = false;
    }
    s << "]}";
    return s.str();
  }
};

inline std::vector<Rectangle> specObstacles(const CircuitSpec &s) {
  std::vector<Rectangle> obs;
  for (auto &c : s.cells)
    if (c.fixed && c.obstruction)
      obs.emplace_back(c.x, (int)(c.x + s.placedW(c)), c.y, (int)(c.y + s.placedH(c)));
  return obs;
}

struct FreeSeg {
  long long minX, maxX, y;
  int orient;
};
inline std::vector<FreeSeg> specFreeSegments(const CircuitSpec &s) {
  std::vector<FreeSeg> out;
  auto obs = specObstacles(s);
  for (auto &r : s.rows)
    for (auto &sg : freeSegments(r, obs)) out.push_back({sg.minX, sg.maxX, r.minY, (int)r.orientation});
  return out;
}

/// One representative movable cell for every connected component of movable
/// cells that has no fixed pin (isolated movable cells are components too).
inline std::vector<int> unanchoredComponents(const CircuitSpec &s) {
  int n = s.cells.size();
  std::vector<int> parent(n);
  for (int i = 0; i < n; ++i) parent[i] = i;
  std::function<int(int)> find = [&](int x) { return parent[x] == x ? x : parent[x] = find(parent[x]); };
  for (auto &net : s.nets) {
    int first = -1;
    for (int c : net.cells)
      if (!s.cells[c].fixed) {
        if (first < 0) first = c;
        else parent[find(c)] = find(first);
      }
  }
  std::vector<char> anch(n, 0);
  for (auto &net : s.nets) {
    bool hasFixed = false;
    for (int c : net.cells) hasFixed |= s.cells[c].fixed;
    if (hasFixed)
      for (int c : net.cells)
        if (!s.cells[c].fixed) anch[find(c)] = 1;
  }
  std::vector<int> out;
  for (int i = 0; i < n; ++i)
    if (!s.cells[i].fixed && find(i) == i && !anch[i]) out.push_back(i);
  return out;
}

// ---------------------------------------------------------------------------
inline CircuitSpec genCircuit(Tape &t, const GenOpts &o) {
  CircuitSpec s;
  // 1. scale
  s.scale = o.forceScale >= 0 ? o.forceScale : t.weighted({5, 2, 2});
  long long rh;
  if (s.scale == 0) {
    rh = t.choose(1, 12);
    s.labels.insert("scale:unit");
  } else if (s.scale == 1) {
    static const int p10[] = {10, 100, 1000};
    rh = (long long)t.choose(1, 12) * p10[t.choose(0, 2)];
    s.labels.insert("scale:decade");
  } else {
    rh = t.choose(200, 4000);
    s.labels.insert("scale:nano");
  }
  s.rowHeight = (int)rh;
  // width unit: a typical cell width
  long long wu = s.scale == 0 ? 1 : std::max<long long>(1, rh / t.choose(2, 12));
  // 2. rows
  int nlev = t.choose(1, o.maxLevels);
  int opat = t.weighted({3, 2, 2});
  s.labels.insert(opat == 0 ? "rows:alternating" : opat == 1 ? "rows:uniform" : "rows:irregular");
  static const CellOrientation unturned[] = {CellOrientation::N, CellOrientation::FS, CellOrientation::S, CellOrientation::FN};
  long long minSegW = (o.rowsWide || o.globalDomain) ? 4 * rh : wu;
  long long maxSegW = std::max(minSegW, std::min<long long>(40 * rh, 400 * wu));
  long long baseW = t.range(minSegW, maxSegW);
  // extent and origin
  long long totalH = 0;
  std::vector<long long> levelY(nlev);
  for (int l = 0; l < nlev; ++l) {
    if (l > 0) {
      int g = t.weighted({6, 1, 1});
      if (g == 1) totalH += rh * t.choose(1, 2), s.labels.insert("rows:gaps");
      if (g == 2) totalH += t.range(1, rh), s.labels.insert("rows:unaligned-gap");
    }
    levelY[l] = totalH;
    totalH += rh;
  }
  long long span = 3 * baseW + 8 * rh;
  long long C = o.maxCoord;
  long long ox, oy;
  {
    int oc = t.weighted({3, 2, o.anchorNear ? 0 : 2});
    long long lim = oc == 0 ? 0 : oc == 1 ? std::min<long long>(C / 4, 50 * rh) : C - span - totalH - 8 * rh;
    if (lim < 0) lim = 0;
    ox = t.range(-lim, lim);
    oy = t.range(-lim, lim);
    if (oc == 2) s.labels.insert("origin:far");
  }
  CellOrientation uni = unturned[t.choose(0, 3)];
  for (int l = 0; l < nlev; ++l) {
    CellOrientation ro = opat == 0 ? ((l % 2) ? CellOrientation::FS : CellOrientation::N)
                         : opat == 1 ? uni : unturned[t.choose(0, 3)];
    int nseg = t.weighted({5, 2, 1}) + 1;
    long long x = ox + (t.flip(1, 4) ? t.range(0, 2 * rh) : 0);
    if (nseg > 1) s.labels.insert("rows:split");
    for (int k = 0; k < nseg; ++k) {
      long long w = nseg == 1 ? (t.flip(1, 3) ? t.range(minSegW, maxSegW) : baseW) : t.range(minSegW, std::max(minSegW, baseW / nseg));
      s.rows.emplace_back((int)x, (int)(x + w), (int)(oy + levelY[l]), (int)(oy + levelY[l] + rh), ro);
      long long gap = t.range(0, std::max<long long>(1, 2 * rh));  // 0: the next segment abuts this one
      if (gap == 0 && k + 1 < nseg) s.labels.insert("rows:abutting-segments");
      x += w + gap;
    }
  }
  long long areaMinX = LLONG_MAX, areaMaxX = LLONG_MIN;
  for (auto &r : s.rows) areaMinX = std::min<long long>(areaMinX, r.minX), areaMaxX = std::max<long long>(areaMaxX, r.maxX);
  long long areaMinY = oy, areaMaxY = oy + totalH;
  long long areaW = areaMaxX - areaMinX;

  // 3. fixed cells
  int nfix = t.weighted({3, 3, 2, 1, 1}) ;
  nfix = nfix == 0 ? 0 : nfix == 1 ? 1 : nfix == 2 ? 2 : nfix == 3 ? t.choose(3, 4) : t.choose(5, o.maxFixed);
  if (nfix > o.maxFixed) nfix = o.maxFixed;
  for (int i = 0; i < nfix; ++i) {
    CellSpec c;
    c.fixed = true;
    int cls = t.weighted({3, 3, 1, 2, 2, 2});
    const Row &r = s.rows[t.choose(0, (int)s.rows.size() - 1)];
    long long rw = r.maxX - r.minX;
    long long pw = 1, ph = 1;
    c.obstruction = true;
    switch (cls) {
      case 0:  // obstruction inside a row
        pw = t.range(1, std::max<long long>(1, rw / 2));
        ph = rh * t.choose(1, 2);
        c.x = (int)t.range(r.minX, r.maxX - pw);
        c.y = r.minY;
        c.kind = "fixed:obstruction-inside";
        break;
      case 1:  // partially covering (height or width cut by a row edge)
        pw = t.range(1, std::max<long long>(1, rw));
        ph = t.range(1, 2 * rh);
        c.x = (int)t.range(r.minX - pw + 1, r.maxX - 1);
        c.y = (int)t.range(r.minY - ph + 1, r.maxY - 1);
        c.kind = "fixed:obstruction-partial";
        break;
      case 2:  // enclosing a whole row
        pw = rw + t.range(0, rh);
        ph = rh + t.range(0, rh);
        c.x = (int)(r.minX - t.range(0, pw - rw));
        c.y = (int)(r.minY - t.range(0, ph - rh));
        c.kind = "fixed:obstruction-enclosing";
        break;
      case 3:  // outside the area
        pw = t.range(1, 4 * rh);
        ph = t.range(1, 4 * rh);
        c.x = (int)(t.flip() ? areaMinX - pw - t.range(0, 6 * rh) : areaMaxX + t.range(0, 6 * rh));
        c.y = (int)t.range(areaMinY - 4 * rh, areaMaxY + 4 * rh);
        c.obstruction = t.flip();
        c.kind = "fixed:outside";
        break;
      case 4:  // non-obstruction inside rows: must be ignored by every stage
        pw = t.range(1, std::max<long long>(1, rw / 2));
        ph = t.flip() ? rh : t.range(1, 3 * rh);
        c.x = (int)t.range(r.minX, r.maxX - pw);
        c.y = (int)(r.minY + (t.flip() ? 0 : t.range(-rh, rh)));
        c.obstruction = false;
        c.kind = "fixed:non-obstruction-inside";
        break;
      default:  // zero-size terminal
        pw = ph = 0;
        c.x = (int)t.range(areaMinX - 2 * rh, areaMaxX + 2 * rh);
        c.y = (int)t.range(areaMinY - 2 * rh, areaMaxY + 2 * rh);
        c.obstruction = t.flip();
        c.kind = "fixed:terminal";
        break;
    }
    if (s.scale == 2 && ph > 0 && ph < rh / 2) ph = rh / 2;  // resource bound on the density grid
    if (ph > 0 && pw * ph >= (1LL << 31)) pw = ((1LL << 31) - 1) / ph;  // domain: every cell area below 2^31
    c.orient = t.flip(1, 4) ? t.choose(0, 7) : 0;
    if (refIsTurn((CellOrientation)c.orient)) {
      c.w = (int)ph, c.h = (int)pw;
    } else {
      c.w = (int)pw, c.h = (int)ph;
    }
    s.labels.insert(c.kind);
    s.cells.push_back(c);
  }

  // free space with the fixed cells in place
  std::vector<FreeSeg> segs = specFreeSegments(s);
  long long freeArea = 0, widest = 0;
  for (auto &sg : segs) freeArea += (sg.maxX - sg.minX) * rh, widest = std::max(widest, sg.maxX - sg.minX);

  // 4/5. movable cells under the utilisation dial
  int util = t.weighted({4, 3, 1, o.overfull ? 1 : 0});
  static const char *un[] = {"util:sparse", "util:tight", "util:full", "util:overfull"};
  s.labels.insert(un[util]);
  int ncell = t.choose(1, o.maxCells);
  double frac = util == 0 ? t.real(0.02, 0.5) : util == 1 ? t.real(0.8, 1.0) : util == 2 ? 1.0 : t.real(1.0, 1.6);
  long long budget = (long long)(frac * freeArea);
  bool partition = util >= 2 && t.flip();  // full / over-full by tiling the segments with single-row cells
  auto drawPolarity = [&](int nrows, bool &mismatch) -> int {
    mismatch = false;
    if ((int)(t.next() % 100) >= o.polarisedPct) return (int)CellRowPolarity::ANY;
    bool odd = nrows % 2 != 0;
    bool mm = o.mismatchedPolarity && t.flip(o.mismatchPct, 100);
    mismatch = mm;
    if (odd != mm) return t.flip() ? (int)CellRowPolarity::SAME : (int)CellRowPolarity::OPPOSITE;
    return t.flip() ? (int)CellRowPolarity::NW : (int)CellRowPolarity::SE;
  };
  if (partition && !segs.empty()) {
    // exactly full: single-row cells partition the free segments
    size_t si = 0;
    long long pos = segs.empty() ? 0 : segs[0].minX;
    std::vector<std::pair<size_t, long long>> pieces;  // (segment, width)
    int maxPieces = std::max(o.maxCells, (int)segs.size());
    for (size_t k = 0; k < segs.size(); ++k) {
      long long len = segs[k].maxX - segs[k].minX;
      int remainingSegs = (int)segs.size() - (int)k;
      int quota = std::max(1, (maxPieces - (int)pieces.size()) / remainingSegs);
      while (len > 0) {
        long long w = quota <= 1 ? len : t.range(1, std::max<long long>(1, std::min(len, 2 * len / quota + 1)));
        if (quota <= 1) w = len;
        pieces.push_back({k, w});
        len -= w;
        --quota;
      }
    }
    (void)si;
    (void)pos;
    for (auto &pc : pieces) {
      CellSpec c;
      c.w = (int)std::min<long long>(pc.second, ((1LL << 31) - 1) / rh);
      c.h = (int)rh;
      c.kind = "cell:single-row";
      bool mm;
      c.polarity = t.flip(1, 4) ? drawPolarity(1, mm) : 0;
      if (c.polarity == (int)CellRowPolarity::NW || c.polarity == (int)CellRowPolarity::SE) c.polarity = 0;
      s.cells.push_back(c);
    }
    if (util == 3) {
      CellSpec c;
      c.w = (int)t.range(1, std::max<long long>(1, widest));
      c.h = (int)rh;
      c.kind = "cell:single-row";
      s.cells.push_back(c);
    }
  } else {
    long long used = 0;
    for (int i = 0; i < ncell; ++i) {
      CellSpec c;
      int kc = o.multiRow ? t.weighted({12, 3, 1}) : 0;
      int nrows = kc == 0 ? 1 : kc == 1 ? t.choose(2, 4) : t.choose(5, 8);
      c.kind = kc == 0 ? "cell:single-row" : kc == 1 ? "cell:multi-row" : "cell:macro";
      int wc = t.weighted({6, 2, 1, 1});
      long long pw = wc == 0 ? t.range(1, std::max<long long>(1, 6 * wu))
                     : wc == 1 ? t.range(1, std::max<long long>(1, widest))
                     : wc == 2 ? rh : std::max<long long>(1, widest);
      if (o.zeroSizeMovable && t.flip(1, 12)) pw = 0;
      long long ph = rh * nrows;
      if (pw * ph >= (1LL << 31)) pw = ((1LL << 31) - 1) / ph;  // domain: every cell area below 2^31
      if (used + pw * ph > budget && i > 0) break;
      used += pw * ph;
      bool mm;
      c.polarity = drawPolarity(nrows, mm);
      if (mm) s.labels.insert("polarity:mismatched");
      if (c.polarity == (int)CellRowPolarity::ANY) {
        c.orient = o.turned ? t.weighted({4, 1, 1, 1, 1, 1, 1, 1}) : (t.flip(1, 3) ? (int)unturned[t.choose(0, 3)] : 0);
      } else {
        c.orient = (int)unturned[t.choose(0, 3)];
        s.labels.insert("polarity:" + std::to_string(c.polarity));
      }
      if (refIsTurn((CellOrientation)c.orient)) {
        c.w = (int)ph, c.h = (int)pw;
        s.labels.insert("cell:turned");
      } else {
        c.w = (int)pw, c.h = (int)ph;
      }
      s.labels.insert(c.kind);
      s.cells.push_back(c);
    }
  }

  if (o.globalDomain) {
    // (i) at least one movable row-high cell of positive area, so that the
    // library's "standard cell height" (smallest positive cell height) is the
    // row height at most; (ii) no cell with a tiny positive unrotated height,
    // which would make the density grid arbitrarily fine (resource bound).
    bool haveStd = false;
    for (auto &c : s.cells)
      if (!c.fixed && c.h == rh && c.w > 0 && !refIsTurn((CellOrientation)c.orient)) haveStd = true;
    if (!haveStd) {
      CellSpec c;
      c.w = (int)std::max<long long>(1, std::min<long long>(wu, widest > 0 ? widest : wu));
      c.h = (int)rh;
      c.kind = "cell:single-row";
      s.cells.push_back(c);
    }
    long long minH = std::max<long long>(1, rh / 2);
    for (auto &c : s.cells)
      if (c.h > 0 && c.h < minH) c.h = (int)minH;
  } else if (o.boundMinHeight) {
    long long minH = std::max<long long>(1, rh / 2);
    for (auto &c : s.cells)
      if (c.h > 0 && c.h < minH) c.h = (int)minH;
  }

  // domain guard (C07): every cell area stays below 2^31 also after the height adjustments above
  for (auto &c : s.cells) {
    if ((long long)c.w * c.h < (1LL << 31)) continue;
    if (refIsTurn((CellOrientation)c.orient)) c.h = (int)(((1LL << 31) - 1) / std::max(1, c.w));
    else c.w = (int)(((1LL << 31) - 1) / std::max(1, c.h));
  }

  // 6. initial positions of the movable cells
  int pc = t.weighted({4, 2, 2, 2});
  static const char *pn[] = {"start:spread", "start:clustered", "start:far-outside", "start:on-obstructions"};
  s.labels.insert(pn[pc]);
  long long cx = t.range(areaMinX, areaMaxX), cy = t.range(areaMinY, areaMaxY);
  long long farLim = std::min<long long>(C - areaW - 8 * rh, 4 * (areaW + totalH));
  if (farLim < 1) farLim = 1;
  for (auto &c : s.cells) {
    if (c.fixed) continue;
    long long x, y;
    switch (pc) {
      case 0:
        x = t.range(areaMinX - rh, areaMaxX);
        y = t.range(areaMinY - rh, areaMaxY);
        break;
      case 1:
        x = cx + t.range(-2, 2);
        y = cy + t.range(-2, 2);
        break;
      case 2:
        x = (t.flip() ? areaMinX - t.range(0, farLim) : areaMaxX + t.range(0, farLim));
        y = (t.flip() ? areaMinY - t.range(0, farLim) : areaMaxY + t.range(0, farLim));
        break;
      default: {
        std::vector<const CellSpec *> fx;
        for (auto &f : s.cells)
          if (f.fixed) fx.push_back(&f);
        if (fx.empty()) {
          x = t.range(areaMinX, areaMaxX);
          y = t.range(areaMinY, areaMaxY);
        } else {
          const CellSpec *f = fx[t.choose(0, (int)fx.size() - 1)];
          x = f->x + t.range(0, std::max<long long>(0, s.placedW(*f)));
          y = f->y + t.range(0, std::max<long long>(0, s.placedH(*f)));
        }
      }
    }
    x = std::max(-C, std::min(x, C - 1));
    y = std::max(-C, std::min(y, C - 1));
    c.x = (int)x;
    c.y = (int)y;
  }

  // 7. nets
  if (o.nets) {
    int n = s.cells.size();
    int nn = t.choose(0, std::min(2 * n, 40));
    s.useSetNets = t.flip(1, 3);
    bool realWeights = t.flip(1, 3);
    for (int k = 0; k < nn; ++k) {
      NetSpec net;
      int deg = t.weighted({s.useSetNets ? 1 : 0, 2, 5, 4, 2, 1, 1});
      if (deg == 6) deg = t.choose(6, std::max(6, std::min(n, 12)));
      bool allFixed = t.flip(1, 12);
      for (int q = 0; q < deg; ++q) {
        int cell = t.choose(0, n - 1);
        if (allFixed) {
          for (int tries = 0; tries < n && !s.cells[cell].fixed; ++tries) cell = (cell + 1) % n;
        }
        const CellSpec &c = s.cells[cell];
        int oc = t.weighted({5, 2, 1});
        int xo, yo;
        if (oc == 0) {
          xo = (int)t.range(0, c.w), yo = (int)t.range(0, c.h);
        } else if (oc == 1) {
          xo = t.flip() ? 0 : c.w, yo = t.flip() ? 0 : c.h;
        } else {
          xo = (int)t.range(-rh, c.w + rh), yo = (int)t.range(-rh, c.h + rh);
          s.labels.insert("pins:outside-outline");
        }
        net.cells.push_back(cell);
        net.xo.push_back(xo);
        net.yo.push_back(yo);
      }
      net.weight = realWeights ? (float)t.real(0.1, 8.0) : 1.0f;
      if (deg > 0 || s.useSetNets) s.nets.push_back(net);
    }
    if (realWeights) s.labels.insert("nets:real-weights");
    s.labels.insert(s.useSetNets ? "nets:setNets" : "nets:addNet");
    if (o.anchorPct > 0 && (int)(t.next() % 100) < o.anchorPct) {
      std::vector<int> reps = unanchoredComponents(s);
      if (!reps.empty()) {
        int fixedCell = -1;
        for (size_t i = 0; i < s.cells.size(); ++i)
          if (s.cells[i].fixed) fixedCell = (int)i;
        if (fixedCell < 0) {
          CellSpec term;
          term.fixed = true;
          term.w = term.h = 0;
          term.obstruction = false;
          term.x = (int)t.range(areaMinX, areaMaxX);
          term.y = (int)t.range(areaMinY, areaMaxY);
          term.kind = "fixed:terminal";
          s.cells.push_back(term);
          fixedCell = (int)s.cells.size() - 1;
        }
        for (int r : reps) {
          NetSpec net;
          net.cells = {r, fixedCell};
          net.xo = {0, 0};
          net.yo = {0, 0};
          net.weight = realWeights ? (float)t.real(0.1, 8.0) : 1.0f;
          s.nets.push_back(net);
        }
        s.labels.insert("nets:anchored-by-construction");
      }
    }
  }
  return s;
}

/// Replace the positions of the movable row-high cells by a constructed legal
/// placement (cells that do not fit anywhere are removed from the spec; nets
/// are dropped in that case to keep indices simple).  Returns false when the
/// spec contains no free space at all.
inline bool packLegal(CircuitSpec &s, Tape &t) {
  std::vector<FreeSeg> segs = specFreeSegments(s);
  if (segs.empty()) return false;
  std::vector<std::vector<int>> inSeg(segs.size());
  std::vector<long long> used(segs.size(), 0);
  std::vector<char> drop(s.cells.size(), 0);
  bool dropped = false;
  for (size_t i = 0; i < s.cells.size(); ++i) {
    CellSpec &c = s.cells[i];
    if (c.fixed) continue;
    size_t start = t.choose(0, (int)segs.size() - 1);
    bool ok = false;
    for (size_t k = 0; k < segs.size() && !ok; ++k) {
      size_t sg = (start + k) % segs.size();
      long long pw = s.placedW(c);
      if (s.placedH(c) != s.rowHeight) break;
      if (used[sg] + pw > segs[sg].maxX - segs[sg].minX) continue;
      int want = refOrientationInRow((CellRowPolarity)c.polarity, segs[sg].orient);
      if (want == (int)CellOrientation::INVALID) continue;
      if (want != (int)CellOrientation::UNKNOWN) {
        if (refIsTurn((CellOrientation)want) != refIsTurn((CellOrientation)c.orient)) continue;
        c.orient = want;
      }
      used[sg] += pw;
      inSeg[sg].push_back((int)i);
      ok = true;
    }
    if (!ok) drop[i] = 1, dropped = true;
  }
  for (size_t sg = 0; sg < segs.size(); ++sg) {
    long long slack = segs[sg].maxX - segs[sg].minX - used[sg];
    long long x = segs[sg].minX;
    for (size_t k = 0; k < inSeg[sg].size(); ++k) {
      long long gap = 0;
      if (slack > 0 && !t.flip(1, 2)) gap = t.range(0, slack);  // touching cells are likely
      slack -= gap;
      x += gap;
      CellSpec &c = s.cells[inSeg[sg][k]];
      c.x = (int)x;
      c.y = (int)segs[sg].y;
      x += s.placedW(c);
    }
  }
  if (dropped) {
    std::vector<int> remap(s.cells.size(), -1);
    std::vector<CellSpec> kept;
    for (size_t i = 0; i < s.cells.size(); ++i)
      if (!drop[i]) remap[i] = (int)kept.size(), kept.push_back(s.cells[i]);
    std::vector<NetSpec> nets;
    for (auto &n : s.nets) {
      NetSpec m;
      m.weight = n.weight;
      for (size_t k = 0; k < n.cells.size(); ++k)
        if (remap[n.cells[k]] >= 0) m.cells.push_back(remap[n.cells[k]]), m.xo.push_back(n.xo[k]), m.yo.push_back(n.yo[k]);
      if (!m.cells.empty() || s.useSetNets) nets.push_back(m);
    }
    s.cells = kept;
    s.nets = nets;
  }
  s.labels.erase("start:spread");
  s.labels.erase("start:clustered");
  s.labels.erase("start:far-outside");
  s.labels.erase("start:on-obstructions");
  s.labels.insert("start:constructed-legal");
  return true;
}

// ---------------------------------------------------------------------------
/// A large instance (up to 300 movable cells, 24 row levels) derived from one word.
inline CircuitSpec genLargeCircuit(uint32_t word, GenOpts o, int maxCells = 300) {
  o.maxCells = maxCells;
  o.maxLevels = 24;
  o.overfull = false;
  // the generator's area budget often stops well before maxCells: take the largest of six draws
  CircuitSpec s;
  for (uint64_t k = 0; k < 6; ++k) {
    Tape big = expandTape((uint64_t)word + (k << 32), 6000);
    CircuitSpec c = genCircuit(big, o);
    if (k == 0 || c.nbMovable() > s.nbMovable()) s = c;
  }
  s.labels.insert("size:large-companion");
  return s;
}

/// Movable cells lower than a row (height 0, half a row, or a row-high cell turned so that its
/// narrow side is up) are accepted by the Circuit; no legalizer stage takes them, so legalization
/// must fail on such a circuit (cleanly).  One case in eight gets one (word % 8 == 1), preferably
/// not on the first movable cell.  Pure function of (s, word).
inline bool addShortMovable(CircuitSpec &s, uint32_t word) {
  if (word % 8 != 1) return false;
  std::vector<int> mov;
  for (size_t i = 0; i < s.cells.size(); ++i)
    if (!s.cells[i].fixed) mov.push_back((int)i);
  if (mov.empty()) return false;
  size_t pick = mov.size() == 1 ? 0 : 1 + (word >> 8) % (mov.size() - 1);
  CellSpec &c = s.cells[mov[pick]];
  int kind = (int)((word >> 4) % 3);
  if (kind == 2 && s.rowHeight >= 2) {
    c.polarity = 0;
    c.orient = (int)coloquinte::CellOrientation::E;
    c.w = s.rowHeight - 1 - (int)((word >> 16) % (uint32_t)(s.rowHeight - 1));  // 1 .. rowHeight-1: placed height
    c.h = std::max(1, c.h);
  } else if (kind == 1 && s.rowHeight >= 2) {
    c.h = s.rowHeight / 2;
  } else {
    c.h = 0;
  }
  s.labels.insert("cells:movable-cell-lower-than-a-row");
  return true;
}

/// A degenerate but well-formed shape: every row is completely covered by a fixed obstruction
/// (left part) and by movable multi-row cells that tile the rest exactly, so that after
/// legalization no free row space is left for the detailed placer.  Pure function of word.
inline CircuitSpec genCoveredCircuit(uint32_t word) {
  using coloquinte::CellOrientation;
  Tape w = expandTape((uint64_t)word ^ 0xC0FEEULL, 96);
  CircuitSpec s;
  static const int rhs[] = {1, 4, 10, 120};
  s.rowHeight = rhs[w.next() % 4];
  int nr = 2 + 2 * (int)(w.next() % 2);  // 2 or 4 rows
  int W = 8 + (int)(w.next() % 53);
  int ox = w.next() % 3 == 0 ? (int)(w.next() % 2000) - 1000 : 0, oy = w.next() % 3 == 0 ? (int)(w.next() % 2000) - 1000 : 0;
  for (int r = 0; r < nr; ++r)
    s.rows.emplace_back(ox, ox + W, oy + r * s.rowHeight, oy + (r + 1) * s.rowHeight, r % 2 ? CellOrientation::FS : CellOrientation::N);
  int a = (int)(w.next() % (uint32_t)(W - 1));  // obstruction [0,a)
  if (a > 0) {
    CellSpec f;
    f.fixed = true, f.obstruction = true, f.w = a, f.h = nr * s.rowHeight, f.x = ox, f.y = oy;
    s.cells.push_back(f);
  }
  bool stacks = nr == 4 && w.next() % 2;  // two stacks of two-row cells instead of four-row cells
  for (int st = 0; st < (stacks ? 2 : 1); ++st) {
    int x = a;
    while (x < W) {
      int cw = 1 + (int)(w.next() % (uint32_t)std::min(W - x, 12));
      if (W - x - cw == 0 || w.next() % 4 != 0 || true) {
        CellSpec c;
        c.w = cw, c.h = (stacks ? 2 : nr) * s.rowHeight;
        c.x = ox + x, c.y = oy + st * 2 * s.rowHeight;
        if (w.next() % 4 == 0) c.x += (int)(w.next() % 5) - 2;  // slightly off its slot
        s.cells.push_back(c);
      }
      x += cw;
    }
  }
  int nm = 0;
  std::vector<int> mov;
  for (size_t i = 0; i < s.cells.size(); ++i)
    if (!s.cells[i].fixed) mov.push_back((int)i), ++nm;
  for (int k = 0; k + 1 < nm && k < 4; ++k) {
    NetSpec n;
    n.cells = {mov[k], mov[k + 1]};
    n.xo = {0, 0}, n.yo = {0, 0};
    n.weight = 1.0f;
    s.nets.push_back(n);
  }
  s.labels.insert("shape:rows-fully-covered");
  return s;
}

/// Another degenerate but ordinary shape: rows cut into many short segments by fixed tap cells
/// at a regular pitch (17..30 segments per row, several rows at the same pitch), with small
/// movable cells between the taps and a few nets.  Pure function of word.
inline CircuitSpec genCombCircuit(uint32_t word) {
  using coloquinte::CellOrientation;
  Tape w = expandTape((uint64_t)word ^ 0xC03BULL, 512);
  CircuitSpec s;
  static const int rhs[] = {1, 4, 10};
  s.rowHeight = rhs[w.next() % 3];
  int nr = 1 + (int)(w.next() % 4);
  int nseg = 17 + (int)(w.next() % 14);
  int pitch = 4 + (int)(w.next() % 6), tapW = 1 + (int)(w.next() % 2);
  int W = nseg * pitch;
  int ox = w.next() % 3 == 0 ? (int)(w.next() % 2000) - 1000 : 0, oy = w.next() % 3 == 0 ? (int)(w.next() % 2000) - 1000 : 0;
  for (int r = 0; r < nr; ++r)
    s.rows.emplace_back(ox, ox + W, oy + r * s.rowHeight, oy + (r + 1) * s.rowHeight, r % 2 ? CellOrientation::FS : CellOrientation::N);
  for (int r = 0; r < nr; ++r)
    for (int k = 1; k < nseg; ++k) {
      CellSpec f;
      f.fixed = true, f.obstruction = true, f.w = tapW, f.h = s.rowHeight;
      f.x = ox + k * pitch, f.y = oy + r * s.rowHeight;
      s.cells.push_back(f);
    }
  int nm = 2 + (int)(w.next() % 24);
  std::vector<int> mov;
  for (int i = 0; i < nm; ++i) {
    CellSpec c;
    c.w = 1 + (int)(w.next() % (uint32_t)std::max(1, pitch - tapW - 1));
    c.h = s.rowHeight;
    c.x = ox + (int)(w.next() % (uint32_t)W);
    c.y = oy + (int)(w.next() % (uint32_t)nr) * s.rowHeight;
    mov.push_back((int)s.cells.size());
    s.cells.push_back(c);
  }
  for (int k = 0; k + 1 < nm && k < 12; ++k) {
    NetSpec n;
    n.cells = {mov[k], mov[(k + 1 + w.next() % 3) % nm]};
    n.xo = {0, 0}, n.yo = {0, 0};
    s.nets.push_back(n);
  }
  s.labels.insert("shape:rows-cut-into-17+-segments");
  return s;
}

/// The rows of a circuit may be given in any order: reorder them (0: as generated, i.e. sorted
/// by y then x; 1: reversed; 2: rotated; 3: deterministic shuffle).  Pure function of (s, word).
inline const char *permuteRows(CircuitSpec &s, uint32_t word) {
  size_t n = s.rows.size();
  int kind = (int)(word % 4);
  if (n < 2 || kind == 0) return "rows:order-as-generated";
  if (kind == 1) {
    std::reverse(s.rows.begin(), s.rows.end());
    return "rows:order-reversed";
  }
  if (kind == 2) {
    std::rotate(s.rows.begin(), s.rows.begin() + 1 + (word >> 2) % (n - 1), s.rows.end());
    return "rows:order-rotated";
  }
  Tape w = expandTape(word, n);
  for (size_t i = n - 1; i > 0; --i) std::swap(s.rows[i], s.rows[w.next() % (i + 1)]);
  return "rows:order-shuffled";
}

/// A circuit with exactly the contents of `s`, reached through an object history instead of
/// a fresh build: it is built from a variant of `s` whose fixed cells sit elsewhere (and may be
/// turned), `prime` is run on it (its exceptions are ignored), and the object is then brought to
/// the contents of `s` through the public setters (setCellX/Y/Orientation or setSolution).
/// Pure function of (s, word).
template <class Prime>
inline coloquinte::Circuit buildWithHistory(const CircuitSpec &s, uint32_t word, Prime prime, std::string *routeName = nullptr) {
  using namespace coloquinte;
  Tape w = expandTape(word, 4 * s.cells.size() + 4);
  CircuitSpec v = s;
  for (auto &c : v.cells)
    if (c.fixed) {
      c.x += ((int)(w.next() % 7) - 3) * s.rowHeight;
      c.y += ((int)(w.next() % 5) - 2) * s.rowHeight;
      if (w.next() % 3 == 0) c.orient = (int)(w.next() % 8);
    }
  Circuit c = v.buildFresh();
  try {
    prime(c);
  } catch (const std::exception &) {
  }
  bool viaSolution = (word >> 8) & 1;
  if (routeName) *routeName = viaSolution ? "setSolution" : "setCellX/Y/Orientation";
  if (viaSolution) {
    PlacementSolution sol;
    for (auto &cs : s.cells) sol.push_back(CellPlacement(cs.x, cs.y, (CellOrientation)cs.orient));
    c.setSolution(sol);
  } else {
    std::vector<int> xs, ys;
    std::vector<CellOrientation> os;
    for (auto &cs : s.cells) xs.push_back(cs.x), ys.push_back(cs.y), os.push_back((CellOrientation)cs.orient);
    c.setCellX(xs);
    c.setCellY(ys);
    c.setCellOrientation(os);
  }
  c.hasCellSizeUpdate_ = false;
  c.hasNetUpdate_ = false;
  return c;
}
inline coloquinte::Circuit buildThroughHistory(const CircuitSpec &s, uint32_t word) {
  return buildWithHistory(s, word, [](coloquinte::Circuit &c) {
    (void)c.computeRows();
    (void)c.hpwl();
    c.legalize(coloquinte::ColoquinteParameters(1));
  });
}
/// For the duration of one case every CircuitSpec::build() goes through an object history when
/// the LAST word of the tape is 1 (mod 4).  The contents of the circuits are unchanged, so a case
/// keeps its meaning; only hidden per-object state (memoised values) can make a difference.
struct HistoryScope {
  HistoryScope(const Tape &t, Report &R) {
    uint32_t w = t.w.empty() ? 0 : t.w.back();
    historyWord() = w;
    if (w % 4 == 1) R.classify("build:through-object-history");
    if ((w >> 2) % 4 == 1) R.classify("build:rows-in-another-order");
  }
  ~HistoryScope() { historyWord() = 0; }
};

// ---------------------------------------------------------------------------
// Literal encoding of a (net-less) spec, used by the small-scope enumerators to
// emit a replayable tape: [kExplicitSpec, rowHeight, nrows, (minX,maxX,minY,o)*,
// ncells, (w,h,x,y,o,pol,fixed,obs)*].
constexpr uint32_t kExplicitSpec = 0xE7E7E7E7u;
inline Tape encodeSpec(const CircuitSpec &s, std::initializer_list<int> extra = {}) {
  Tape t;
  t.w = {kExplicitSpec, (uint32_t)s.rowHeight, (uint32_t)s.rows.size()};
  for (auto &r : s.rows) {
    t.w.push_back((uint32_t)r.minX), t.w.push_back((uint32_t)r.maxX), t.w.push_back((uint32_t)r.minY), t.w.push_back((uint32_t)r.orientation);
  }
  t.w.push_back((uint32_t)s.cells.size());
  for (auto &c : s.cells) {
    t.w.push_back((uint32_t)c.w), t.w.push_back((uint32_t)c.h), t.w.push_back((uint32_t)c.x), t.w.push_back((uint32_t)c.y);
    t.w.push_back((uint32_t)c.orient), t.w.push_back((uint32_t)c.polarity), t.w.push_back((uint32_t)c.fixed), t.w.push_back((uint32_t)c.obstruction);
  }
  for (int e : extra) t.w.push_back((uint32_t)e);
  return t;
}
/// Decode a literal spec (values are clamped so that any tape is a valid small circuit).
inline CircuitSpec decodeSpec(Tape &t) {
  CircuitSpec s;
  t.next();
  auto iv = [&](int lo, int hi) {
    int v = (int)(int32_t)t.next();
    return std::max(lo, std::min(v, hi));
  };
  s.rowHeight = iv(1, 4000);
  int nr = iv(1, 16);
  for (int i = 0; i < nr; ++i) {
    int a = iv(-(1 << 22), 1 << 22), b = iv(-(1 << 22), 1 << 22), y = iv(-(1 << 22), (1 << 22) - s.rowHeight), o = iv(0, 7);
    if (b <= a) b = a + 1;
    static const int un[] = {0, 1, 4, 5};
    bool ok = o == 0 || o == 1 || o == 4 || o == 5;
    s.rows.emplace_back(a, b, y, y + s.rowHeight, (CellOrientation)(ok ? o : un[o % 4]));
  }
  int nc = iv(0, 32);
  for (int i = 0; i < nc; ++i) {
    CellSpec c;
    c.w = iv(0, 1 << 20), c.h = iv(0, 1 << 20), c.x = iv(-(1 << 22), 1 << 22), c.y = iv(-(1 << 22), 1 << 22);
    c.orient = iv(0, 7), c.polarity = iv(0, 4), c.fixed = iv(0, 1), c.obstruction = iv(0, 1);
    c.kind = "cell:explicit";
    s.cells.push_back(c);
  }
  s.labels.insert("explicit");
  return s;
}

/// Literal specs come from the small-scope enumerators, but a fuzzer may mutate them: a literal
/// spec is only judged when it lies in the quantified domain of the circuit properties (C01):
/// pairwise disjoint rows, movable cells of positive width whose placed height is a positive
/// multiple of the row height, unturned orientation on polarised cells, areas below 2^31.
inline bool specInDomain(const CircuitSpec &s) {
  using coloquinte::CellOrientation;
  for (size_t i = 0; i < s.rows.size(); ++i)
    for (size_t j = i + 1; j < s.rows.size(); ++j) {
      const auto &a = s.rows[i], &b = s.rows[j];
      if (a.minX < b.maxX && b.minX < a.maxX && a.minY < b.maxY && b.minY < a.maxY) return false;
    }
  for (auto &c : s.cells) {
    if ((long long)c.w * c.h >= (1LL << 31)) return false;
    if (c.fixed) continue;
    bool turn = refIsTurn((CellOrientation)c.orient);
    if (c.polarity != 0 && turn) return false;
    long long pw = turn ? c.h : c.w, ph = turn ? c.w : c.h;
    if (pw < 1 || ph < s.rowHeight || ph % s.rowHeight != 0) return false;
  }
  return true;
}

/// Optional literal nets after a literal spec: [nnets, (deg, (cell,xo,yo)*)*].
inline void decodeNets(Tape &t, CircuitSpec &s) {
  int n = s.cells.size();
  if (n == 0) return;
  int nn = (int)(t.next() % 17);
  for (int k = 0; k < nn; ++k) {
    NetSpec net;
    int deg = (int)(t.next() % 9);
    for (int q = 0; q < deg; ++q) {
      net.cells.push_back((int)(t.next() % (uint32_t)n));
      int xo = (int)(int32_t)t.next(), yo = (int)(int32_t)t.next();
      net.xo.push_back(std::max(-(1 << 20), std::min(xo, 1 << 20)));
      net.yo.push_back(std::max(-(1 << 20), std::min(yo, 1 << 20)));
    }
    if (deg > 0) s.nets.push_back(net);
  }
}

// ---------------------------------------------------------------------------
struct ParamOpts {
  bool global = false;      // also draw global-placement parameters
  int maxNbSteps = 60;      // resource bound
  bool moderateBox = true;  // numerically moderate box of C06/C07
};

/// Parameters: effort 1..9, then every field independently left at its
/// default or drawn from the range its check() accepts (resource-bounded).
inline ColoquinteParameters genParams(Tape &t, const ParamOpts &po, std::set<std::string> *labels = nullptr) {
  int effort = t.choose(1, 9);
  int seed = t.flip() ? -1 : (int)(t.next() % 1000);
  ColoquinteParameters p(effort, seed);
  auto maybe = [&]() { return t.flip(1, 3); };
  // legalization
  if (maybe()) p.legalization.orderingWidth = t.real(-1.0, 2.0);
  if (maybe()) p.legalization.orderingY = t.real(-0.2, 0.2);
  if (maybe()) p.legalization.orderingHeight = t.real(-4.0, 4.0);
  // detailed
  p.detailed.nbPasses = std::min(p.detailed.nbPasses, 4);
  if (maybe()) p.detailed.nbPasses = t.choose(0, 4);
  if (maybe()) p.detailed.localSearchNbNeighbours = t.choose(0, 12);
  if (maybe()) p.detailed.localSearchNbRows = t.choose(0, 6);
  if (maybe()) p.detailed.shiftNbRows = t.choose(1, 8);
  if (maybe()) p.detailed.shiftMaxNbCells = t.weighted({1, 1, 3}) == 0 ? 0 : t.choose(1, 60);
  if (maybe()) {
    p.detailed.reorderingNbRows = t.choose(1, 3);
    p.detailed.reorderingMaxNbCells = t.choose(0, 5);
    if (p.detailed.reorderingMaxNbCells >= 2 && labels) labels->insert("params:reordering");
  }
  if (po.global) {
    auto &g = p.global;
    g.maxNbSteps = std::min(g.maxNbSteps, po.maxNbSteps);
    if (maybe()) g.maxNbSteps = t.choose(1, po.maxNbSteps);
    g.nbInitialSteps = maybe() ? t.choose(0, std::max(0, std::min(g.maxNbSteps - 1, 4))) : 0;
    if (maybe()) g.nbStepsBeforeRoughLegalization = t.choose(1, 4);
    if (maybe()) g.gapTolerance = t.real(0.0, 1.0);
    if (maybe()) g.distanceTolerance = t.real(0.0, 8.0);
    if (maybe()) g.penaltyUpdateDistance = t.real(0.01, 40.0);
    if (maybe()) g.penaltyUpdateBackoff = t.real(1.0, 4.0);
    if (maybe()) {
      static const double eb[] = {0.0, 1.0, 0.5, 0.99};
      g.exportBlending = t.flip() ? eb[t.choose(0, 3)] : t.real(-0.49, 1.49);
    }
    if (maybe()) {
      static const double nz[] = {0.0, 1e-4, 0.5};
      g.noise = nz[t.choose(0, 2)];
    }
    auto &cm = g.continuousModel;
    if (maybe()) cm.netModel = (NetModelOption)t.choose(0, 3);
    if (maybe()) cm.approximationDistance = t.real(po.moderateBox ? 0.1 : 1e-6, 50.0);
    if (maybe()) cm.approximationDistanceUpdateFactor = t.real(0.8, 1.2);
    if (maybe()) {
      // one word, three bands: a cap the solver actually hits (1..5, 6..40) or a generous one
      uint32_t w = t.next();
      int band = (int)(w % 3);
      cm.maxNbConjugateGradientSteps = band == 0 ? 1 + (int)((w / 3) % 5) : band == 1 ? 6 + (int)((w / 3) % 35) : 41 + (int)((w / 3) % 960);
      if (labels && band < 2) labels->insert("params:cg-iteration-cap<=40");
    }
    if (maybe()) cm.conjugateGradientErrorTolerance = std::pow(10.0, -t.real(0.0, po.moderateBox ? 6.0 : 8.0));
    auto &rl = g.roughLegalization;
    if (maybe()) rl.costModel = (LegalizationModel)t.choose(0, 5);
    if (maybe()) rl.nbSteps = t.choose(0, 3);
    if (maybe()) rl.binSize = t.real(1.0, 25.0);
    if (maybe()) {
      rl.lineReoptSize = t.choose(1, 6);
      rl.lineReoptOverlap = rl.lineReoptSize > 1 ? t.choose(1, rl.lineReoptSize - 1) : t.choose(1, 3);
    }
    if (maybe()) {
      rl.diagReoptSize = t.choose(1, 6);
      rl.diagReoptOverlap = rl.diagReoptSize > 1 ? t.choose(1, rl.diagReoptSize - 1) : t.choose(1, 3);
    }
    if (maybe()) {
      rl.squareReoptSize = t.choose(1, 4);
      rl.squareReoptOverlap = rl.squareReoptSize > 1 ? t.choose(1, rl.squareReoptSize - 1) : t.choose(1, 3);
    }
    if (maybe()) rl.unidimensionalTransport = t.flip();
    if (maybe()) rl.quadraticPenalty = t.real(0.0, 1.0);
    if (maybe()) rl.sideMargin = t.real(0.0, 1.5);
    if (maybe()) rl.coarseningLimit = t.real(0.5, 200.0);
    if (maybe()) rl.targetBlending = t.real(-0.09, 0.89);
    // the one cross-field rule of the check
    if (rl.lineReoptSize < 2 && rl.diagReoptSize < 2 && rl.squareReoptSize < 2 &&
        (!rl.unidimensionalTransport || rl.costModel != LegalizationModel::L1)) {
      rl.lineReoptSize = 2;
      rl.lineReoptOverlap = 1;
    }
    auto &pe = g.penalty;
    if (maybe()) pe.cutoffDistance = t.real(po.moderateBox ? 0.1 : 1e-6, 100.0);
    if (maybe()) pe.cutoffDistanceUpdateFactor = t.real(0.8, 1.2);
    if (maybe()) pe.areaExponent = t.real(0.49, 1.01);
    if (maybe()) pe.initialValue = t.real(0.001, 1.0);
    if (maybe()) pe.updateFactor = t.real(1.01, 1.99);
    if (maybe()) pe.targetBlending = t.real(0.11, 1.09);
  }
  return p;
}

}  // namespace verif
