#!/bin/bash
# usage: tools/run_seeded.sh [<seed-dir-name>...]   run the quick tier of each seed's own property against it
# (scratch worktree per run, removed afterwards); prints one CAUGHT / MISSED line per seeded change.
cd "$(dirname "$0")/.."
names=("$@"); [ ${#names[@]} = 0 ] && names=($(ls seeded))
for n in "${names[@]}"; do
  id=${n:0:3}
  timeout 2400 tools/mutant.py seeded/$n/patch.diff $id 2>&1 | grep -E "^MUTANT|PATCH-DOES-NOT-APPLY" | sed "s/^MUTANT patch.diff/SEED $n/" | cut -c1-160
done
