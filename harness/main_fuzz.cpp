// libFuzzer front end: the tape is the fuzzer's byte string.
// VERIF_OUT=<prefix> : where counters / the failing tape are written.
#include <cstdint>
#include <iostream>
#include <sstream>

#include "evidence.hpp"

using namespace verif;

namespace {
Report *gR = nullptr;
std::string gPrefix;
NullBuf &gSink = *new NullBuf();
void flushReport() {
  if (gR && !gPrefix.empty()) gR->write(gPrefix);
}
}  // namespace

extern "C" int LLVMFuzzerInitialize(int *, char ***) {
  std::cout.rdbuf(&gSink);
  gR = new Report();
  if (const char *p = std::getenv("VERIF_OUT")) gPrefix = p;
  std::atexit(flushReport);
  return 0;
}

extern "C" int LLVMFuzzerTestOneInput(const uint8_t *data, size_t size) {
  Tape t(data, size);
  gR->failReason.clear();
  gR->beginCase();
  bool ok = prop(t, *gR);
  if ((gR->evaluations & (gR->evaluations - 1)) == 0 ||
      gR->evaluations % 4096 == 0)
    flushReport();
  if (!ok) {
    flushReport();
    if (!gPrefix.empty()) {
      t.save(gPrefix + ".fail.tape");
      FILE *f = std::fopen((gPrefix + ".fail.txt").c_str(), "w");
      if (f) {
        std::fputs(gR->failReason.c_str(), f);
        std::fclose(f);
      }
    }
    std::fprintf(stderr, "FALSIFIED %s\n", gR->failReason.c_str());
    __builtin_trap();
  }
  return 0;
}
