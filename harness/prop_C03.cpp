// C03 — placement only moves movable cells; everything else is untouched,
// whether the call returns or throws.
#include <fcntl.h>

#include "gen_circuit.hpp"
#include "isolate.hpp"
#include "stages.hpp"

using namespace coloquinte;

namespace verif {
const char *propId() { return "C03"; }

bool prop(Tape &t, Report &R) {
  int flow = t.weighted({3, 3, 3, 2, 1});
  static const char *fn[] = {"flow:global", "flow:legalize", "flow:detailed", "flow:global-legalize-detailed", "flow:legalize-twice"};
  bool usesGlobal = flow == 0 || flow == 3;
  HistoryScope hist(t, R);
  GenOpts o;
  o.maxCells = R.thorough() ? 40 : 16;
  if (usesGlobal) {
    o.globalDomain = true;
    o.anchorPct = 85;
    o.overfull = t.flip(1, 4);
  }
  CircuitSpec s = genCircuit(t, o);
  ParamOpts po;
  po.global = usesGlobal;
  po.maxNbSteps = 20;
  ColoquinteParameters params = genParams(t, po, &s.labels);
  bool rejected = false;
  if (t.flip(1, 12)) {
    // a parameter set the check rejects: the call must throw and change nothing
    params.detailed.shiftNbRows = 0;
    rejected = true;
    s.labels.insert("params:rejected");
  }
  s.labels.insert(fn[flow]);
  if (s.nbMovable() == 0) {
    R.discard("no movable cell");
    return true;
  }
  // A shape on which the single-precision solver is known to return non-finite coordinates (the
  // reproducer of the recorded C06/C07 finding): unit rows far from the origin, unit cells, one
  // net without a fixed pin.  The class is judged in a forked child below; what matters here is
  // that nothing but movable positions changes even then.  Chosen by the last word of the tape.
  {
    uint32_t lw = t.w.empty() ? 0 : t.w.back();
    if (flow == 0 && (lw >> 12) % 16 == 3) {
      static const int far[][2] = {{-4194271, -4194271}, {2317303, -350143}, {4194000, 0}, {0, -4194000}};
      int k = (int)((lw >> 16) % 4);
      int ox = far[k][0], oy = far[k][1];
      CircuitSpec f;
      f.rowHeight = 1;
      int nr = 1 + (int)((lw >> 18) % 6), rw = 4 + (int)((lw >> 21) % 8), nc = 2 + (int)((lw >> 24) % 4);
      for (int r = 0; r < nr; ++r) f.rows.emplace_back(ox, ox + rw, oy + r, oy + r + 1, r % 2 ? CellOrientation::FS : CellOrientation::N);
      for (int i = 0; i < nc; ++i) {
        CellSpec c;
        c.w = c.h = 1, c.x = ox, c.y = oy;
        f.cells.push_back(c);
      }
      NetSpec net;
      net.cells = {0, 1}, net.xo = {0, 0}, net.yo = {0, 0};
      f.nets.push_back(net);
      f.labels = s.labels;
      f.labels.insert("shape:far-unanchored-unit-cells");
      s = f;
      params = ColoquinteParameters(3, 0);
      params.global.maxNbSteps = 30;
      rejected = false;
    }
  }
  bool knownClass = false;
  if (usesGlobal) {
    // known finding #17 (C06/C07): on the unchanged tree this class ends in a
    // sanitizer abort, so it is run in a forked child (below) instead of here
    std::vector<int> un = unanchoredComponents(s);
    long long far = 0;
    for (auto &r : s.rows) far = std::max<long long>({far, std::llabs((long long)r.minX), std::llabs((long long)r.maxX), std::llabs((long long)r.minY), std::llabs((long long)r.maxY)});
    double tot = 0;
    for (auto &c : s.cells)
      if (!c.fixed) tot += (double)c.w * c.h;
    double avg = std::sqrt(tot / std::max<size_t>(1, s.cells.size()));
    knownClass = !un.empty() && (avg <= 0 || far / avg > 1e3);
  }
  int cbMode = t.weighted({2, 2, 2});  // none, observing, throwing
  int throwAt = t.choose(0, 12);
  static const char *cn[] = {"callback:none", "callback:observing", "callback:throwing"};
  s.labels.insert(cn[cbMode]);
  // Unoriented cells: CellOrientation::UNKNOWN is accepted by setCellOrientation and treated like N by
  // the geometry; "leaves every orientation unchanged" covers it too.  Decided at the end of the tape.
  // Only for global placement alone: its domain (C06) does not restrict orientations, that of
  // legalization and detailed placement (C01) names the eight placed ones.
  if (t.flip(1, 8) && flow == 0) {
    bool any = false;
    for (auto &c : s.cells)
      if (!c.fixed && c.polarity == 0 && !refIsTurn((CellOrientation)c.orient) && t.flip(1, 2)) c.orient = (int)CellOrientation::UNKNOWN, any = true;
    if (any) s.labels.insert("orientation:UNKNOWN-on-some-movable-cells");
  }
  for (auto &l : s.labels) R.classify(l);

  bool threwAny = false, movedAny = false;
  bool fixedPin = false;
  auto judge = [&](Report &R) -> bool {
  Circuit c = s.build();
  Frame before = snap(c);
  for (auto &n : s.nets)
    for (int cell : n.cells) fixedPin |= s.cells[cell].fixed;

  int calls = 0;
  std::vector<int> stages;
  switch (flow) {
    case 0: stages = {kGlobal}; break;
    case 1: stages = {kLegalize}; break;
    case 2: stages = {kDetailed}; break;
    case 3: stages = {kGlobal, kLegalize, kDetailed}; break;
    default: stages = {kLegalize, kLegalize}; break;
  }
  for (int st : stages) {
    Frame pre = snap(c);
    std::string cbErr;
    PlacementCallback cb = [&](PlacementStep) {
      // inside a callback the frame must already be intact
      if (cbErr.empty()) {
        std::string d = diffFrame(before, snap(c), true, st == kGlobal);
        if (!d.empty()) cbErr = d;
      }
      if (cbMode == 2 && calls++ == throwAt) throw HarnessFault();
    };
    StageResult r = cbMode == 0 ? runStage(c, st, params) : runStage(c, st, params, cb);
    if (r.otherException) return R.fail(std::string(stageName(st)) + " threw a non-std exception");
    if (!cbErr.empty()) return R.fail(std::string("inside a callback of ") + stageName(st) + ": " + cbErr + " " + s.json());
    Frame post = snap(c);
    // everything but x/y/orientation of movable cells; after placeGlobal also all orientations
    std::string d = diffFrame(pre, post, true, st == kGlobal);
    if (!d.empty())
      return R.fail(std::string(stageName(st)) + (r.returned ? " (returned): " : " (threw): ") + d + " " + s.json());
    if (rejected && r.returned) return R.fail(std::string(stageName(st)) + " accepted rejected parameters");
    if (rejected) {
      std::string d2 = diffFrame(pre, post, false, true);
      if (!d2.empty()) return R.fail(std::string(stageName(st)) + " with rejected parameters moved cells: " + d2);
    }
    if (!r.returned) threwAny = true;
    if (post.x != pre.x || post.y != pre.y) movedAny = true;
    if (r.harnessFault) break;
  }
  return true;
  };
  if (knownClass) {
    std::string why;
    int rc = runIsolated([&](std::string &w) {
      Report tmp;
      tmp.frozen = true;
      bool ok = judge(tmp);
      w = tmp.failReason;
      return ok;
    }, why);
    if (rc == 2) {
      R.exclude("c06-unanchored-far-from-origin(child-aborted)");
      return true;
    }
    R.classify("known-finding-class-survived-in-child");
    if (rc == 1) return R.fail(why);
    return true;
  }
  if (!judge(R)) return false;
  R.classify(threwAny ? "outcome:some-call-threw" : "outcome:all-returned");
  if ((fixedPin && movedAny) || threwAny)
    R.nontrivial(s.hash() ^ Hasher().add(flow).add(cbMode).add(throwAt).h, [&] { return s.json(16); });
  return true;
}

bool exhaustive(Report &, int, int, Tape &) { return true; }
}  // namespace verif
