// Helpers to drive the three public placement stages uniformly.
#pragma once
#include <functional>
#include <string>

#include "coloquinte.hpp"

namespace verif {
using coloquinte::PlacementStep;

enum Stage { kGlobal = 0, kLegalize = 1, kDetailed = 2 };
inline const char *stageName(int s) {
  return s == kGlobal ? "placeGlobal" : s == kLegalize ? "legalize" : "placeDetailed";
}

struct HarnessFault {};  // thrown by fault-injecting callbacks; not a std::exception

/// Outcome of one stage call.
struct StageResult {
  bool returned = false;
  bool stdException = false;
  bool harnessFault = false;
  bool otherException = false;
  std::string what;
};

inline StageResult runStage(coloquinte::Circuit &c, int stage, const coloquinte::ColoquinteParameters &p,
                            const std::optional<coloquinte::PlacementCallback> &cb = {}) {
  StageResult r;
  try {
    if (stage == kGlobal) c.placeGlobal(p, cb);
    if (stage == kLegalize) c.legalize(p, cb);
    if (stage == kDetailed) c.placeDetailed(p, cb);
    r.returned = true;
  } catch (const HarnessFault &) {
    r.harnessFault = true;
  } catch (const std::exception &e) {
    r.stdException = true;
    r.what = e.what();
  } catch (...) {
    r.otherException = true;
  }
  return r;
}
}  // namespace verif
