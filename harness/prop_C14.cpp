// C14 — one-dimensional transportation: valid + optimal plan, memory-safe and
// consistent rounding.  Oracles: LEMON network simplex with |u-v| costs and a
// brute force over all plans for tiny instances.
#include <algorithm>
#include <climits>
#include <map>
#include <sstream>

#include "evidence.hpp"
#include "flow_oracle.hpp"
#include "place_global/transportation_1d.hpp"

namespace verif {
const char *propId() { return "C14"; }

namespace {
struct Inst {
  std::vector<ll> u, v, s, d;
  bool balance = false;  // call balanceDemand() first
  int history = 0;       // 0: solve, assign; 1: assign, solve; 2: both twice (answers must repeat); 3: balanceDemand twice
  std::string json() const {
    std::ostringstream o;
    o << "{\"source_pos\":" << jsonArr(u) << ",\"sink_pos\":" << jsonArr(v)
      << ",\"supply\":" << jsonArr(s) << ",\"demand\":" << jsonArr(d)
      << ",\"balanceDemand\":" << (balance ? "true" : "false") << "}";
    return o.str();
  }
};

bool judge(const Inst &in, Report &R, bool brute, bool &nontrivial) {
  nontrivial = false;
  int n = in.u.size(), m = in.v.size();
  std::vector<ll> d;
  Transportation1d::Solution sol;
  std::vector<int> asg;
  try {
    Transportation1d pb(in.u, in.v, in.s, in.d);
    if (in.balance) pb.balanceDemand();
    if (pb.totalSupply() > pb.totalDemand())
      return R.fail("balanceDemand left supply above demand");
    d = pb.sinkDemand();
    if (pb.sourceSupply() != in.s || pb.sourcePosition() != in.u ||
        pb.sinkPosition() != in.v)
      return R.fail("problem data changed");
    if (in.history == 3 && in.balance) {
      pb.balanceDemand();
      if (pb.sinkDemand() != d) return R.fail("a second balanceDemand() changed the demands again");
    }
    if (in.history == 1) {
      asg = pb.assign();
      sol = pb.solve();
    } else {
      sol = pb.solve();
      asg = pb.assign();
    }
    if (in.history == 2) {
      if (pb.solve() != sol) return R.fail("a second solve() on the same object returned another plan");
      if (pb.assign() != asg) return R.fail("a second assign() on the same object returned another assignment");
    }
  } catch (const std::exception &e) {
    return R.fail(std::string("exception: ") + e.what());
  }
  // ---- plan validity
  std::vector<ll> gotS(n, 0), gotD(m, 0);
  std::vector<int> nbParts(n, 0), onlySink(n, -1);
  i128 cost = 0;
  for (auto [i, j, a] : sol) {
    if (i < 0 || i >= n || j < 0 || j >= m) return R.fail("plan index out of range");
    if (a <= 0) return R.fail("plan allocation not positive");
    gotS[i] += a;
    gotD[j] += a;
    ++nbParts[i];
    onlySink[i] = j;
    ll c = in.u[i] - in.v[j];
    if (c < 0) c = -c;
    cost += (i128)a * c;
  }
  for (int i = 0; i < n; ++i)
    if (gotS[i] != in.s[i]) {
      std::ostringstream o;
      o << "supply-not-met source " << i << " got=" << gotS[i] << " supply=" << in.s[i];
      return R.fail(o.str());
    }
  for (int j = 0; j < m; ++j)
    if (gotD[j] > d[j]) {
      std::ostringstream o;
      o << "demand-exceeded sink " << j << " got=" << gotD[j] << " demand=" << d[j];
      return R.fail(o.str());
    }
  // ---- optimality
  std::vector<std::vector<ll>> cm(m, std::vector<ll>(n));
  for (int j = 0; j < m; ++j)
    for (int i = 0; i < n; ++i) {
      ll c = in.u[i] - in.v[j];
      cm[j][i] = c < 0 ? -c : c;
    }
  i128 opt = brute ? bruteOpt(d, in.s, cm) : lemonOpt(d, in.s, cm);
  if (brute && (R.exhaustiveStates & 15) == 0) {
    if (lemonOpt(d, in.s, cm) != opt) return R.fail("harness: LEMON oracle disagrees with brute force");
  }
  if (cost != opt)
    return R.fail("not-minimum-cost plan=" + i128s(cost) + " optimum=" + i128s(opt));
  // ---- rounded assignment
  if ((int)asg.size() != n) {
    std::ostringstream o;
    o << "assignment-size " << asg.size() << " for " << n << " sources";
    return R.fail(o.str());
  }
  bool anyPositiveDemand = false;
  for (int j = 0; j < m; ++j) anyPositiveDemand |= d[j] > 0;
  for (int i = 0; i < n; ++i) {
    int a = asg[i];
    if (a < 0 || a >= m) {
      std::ostringstream o;
      o << "assignment-out-of-range source " << i << " -> " << a;
      return R.fail(o.str());
    }
    if (anyPositiveDemand && d[a] <= 0) {
      std::ostringstream o;
      o << "assignment-to-zero-demand-sink source " << i << " (supply " << in.s[i] << ") -> sink " << a;
      return R.fail(o.str());
    }
    if (nbParts[i] == 1 && a != onlySink[i] && in.v[a] != in.v[onlySink[i]]) {
      std::ostringstream o;
      o << "assignment-differs-from-plan source " << i << " plan sink " << onlySink[i]
        << " assigned " << a;
      return R.fail(o.str());
    }
    if (nbParts[i] > 1) nontrivial = true;
  }
  for (ll x : in.s) nontrivial |= x == 0;
  for (ll x : in.d) nontrivial |= x == 0;
  return true;
}

Inst decode(Tape &t, bool thorough) {
  Inst in;
  if (!t.w.empty() && t.w[0] == 0xE7E7E7E7u) {
    t.next();
    int n = 1 + (int)((t.next() - 1) % 64), m = 1 + (int)((t.next() - 1) % 32);
    for (int i = 0; i < n; ++i) in.u.push_back(t.next() % 100000001u);
    for (int j = 0; j < m; ++j) in.v.push_back(t.next() % 100000001u);
    for (int i = 0; i < n; ++i) in.s.push_back(t.next() % 1000001u);
    for (int j = 0; j < m; ++j) in.d.push_back(t.next() % 1000001u);
    in.balance = true;
    return in;
  }
  int szc = t.weighted({5, 3, 2});
  int n = szc == 0 ? t.choose(1, 5) : szc == 1 ? t.choose(6, 12) : t.choose(13, thorough ? 60 : 30);
  int m = szc == 0 ? t.choose(1, 4) : szc == 1 ? t.choose(1, 8) : t.choose(1, thorough ? 30 : 16);
  int pcls = t.weighted({5, 2, 2});  // positions small / medium / 1e8
  ll pmax = pcls == 0 ? 20 : pcls == 1 ? 5000 : 100000000LL;
  int acls = t.weighted({5, 2});     // amounts small / large
  ll smax = acls == 0 ? 5 : 1000000, dmax = acls == 0 ? 6 : 1200000;
  int zeroBias = t.weighted({3, 2, 2});  // none / some zero supplies / many zeros
  for (int i = 0; i < n; ++i) {
    in.u.push_back(t.range(0, pmax));
    ll s = t.range(0, smax);
    if (zeroBias == 0 && s == 0) s = 1;
    if (zeroBias == 2 && t.flip(1, 3)) s = 0;
    in.s.push_back(s);
  }
  for (int j = 0; j < m; ++j) {
    // duplicates of source or sink positions are likely
    ll pos = t.flip(1, 4) && !in.v.empty() ? in.v[t.choose(0, (int)in.v.size() - 1)]
             : t.flip(1, 4) ? in.u[t.choose(0, n - 1)] : t.range(0, pmax);
    in.v.push_back(pos);
    ll d = t.range(0, dmax);
    if (zeroBias == 0 && d == 0) d = 1;
    if (zeroBias == 2 && t.flip(1, 3)) d = 0;
    in.d.push_back(d);
  }
  ll S = 0, D = 0;
  for (ll x : in.s) S += x;
  for (ll x : in.d) D += x;
  if (S > D) {
    if (t.flip()) {
      in.balance = true;  // library normalisation
    } else {
      // add the missing demand to tape-chosen sinks (exact balance or slack)
      ll missing = S - D + (t.flip() ? 0 : t.range(0, 5));
      while (missing > 0) {
        int j = t.choose(0, m - 1);
        ll add = std::max<ll>(1, missing / 2 + (missing & 1));
        in.d[j] += add;
        missing -= add;
      }
    }
  } else if (t.flip(1, 4)) {
    in.balance = true;  // no-op call
  }
  return in;
}
}  // namespace

bool prop(Tape &t, Report &R) {
  Inst in = decode(t, R.thorough());
  in.history = t.weighted({3, 1, 1, 1});  // decided last
  // decided last: many sinks on very few positions (17..30 sinks of positive demand sharing 1..3
  // positions): ties everywhere in the position order
  {
    uint32_t cw = t.next();
    if (cw % 6 == 1 && !in.v.empty()) {
      size_t kpos = 1 + (cw >> 4) % 3;
      for (size_t j = 0; j < in.v.size(); ++j) in.v[j] = in.v[j % std::min(kpos, in.v.size())];
      size_t want = 17 + (cw >> 8) % 14;
      Tape extra = expandTape(cw, 64);
      while (in.v.size() < want) {
        in.v.push_back(in.v[extra.next() % std::min(kpos, in.v.size())]);
        in.d.push_back(1 + (ll)(extra.next() % 5));
      }
      R.classify("sinks:17+-on-few-positions");
    }
  }
  // decided last: the same instance with every supply and demand scaled by a common factor so
  // that the totals leave the 32-bit range (areas in database units) while each product
  // amount x distance stays far inside 64 bits
  {
    uint32_t w = t.next();
    ll S = 0, D = 0;
    for (ll x : in.s) S += x;
    for (ll x : in.d) D += x;
    if (w % 4 == 1 && std::max(S, D) > 0) {
      ll target = (1LL << 31) + (ll)(t.next() % (1u << 31)) * 2;
      ll F = target / std::max(S, D) + 1;
      for (ll &x : in.s) x *= F;
      for (ll &x : in.d) x *= F;
      R.classify("amounts:totals>=2^31");
    }
  }
  static const char *hn[] = {"calls:solve,assign", "calls:assign,solve", "calls:solve,assign,solve,assign", "calls:balanceDemand-twice"};
  R.classify(hn[in.history]);
  bool z = false;
  for (ll x : in.s) z |= x == 0;
  R.classify(z ? "has-zero-supply" : "no-zero-supply");
  z = false;
  for (ll x : in.d) z |= x == 0;
  R.classify(z ? "has-zero-demand" : "no-zero-demand");
  R.classify(in.balance ? "balanceDemand" : "direct");
  R.classify(in.u.size() <= 5 ? "sources:1-5" : in.u.size() <= 12 ? "sources:6-12" : "sources:13+");
  bool nt;
  if (!judge(in, R, false, nt)) return false;
  if (nt) {
    R.classify("nontrivial");
    Hasher h;
    h.addv(in.u).addv(in.v).addv(in.s).addv(in.d).add(in.balance);
    R.nontrivial(h.h, [&] { return in.json(); });
  }
  return true;
}

// Exhaustive: <= 3 sources, <= 3 sinks, positions 0..3, supplies 0..2,
// demands 0..2 (with balanceDemand when supply exceeds demand).
bool exhaustive(Report &R, int shard, int nshards, Tape &failTape) {
  long long idx = 0;
  for (int n = 1; n <= 3; ++n)
    for (int m = 1; m <= 3; ++m) {
      long long posCombos = 1;
      for (int k = 0; k < n + m; ++k) posCombos *= 4;
      long long amtCombos = 1;
      for (int k = 0; k < n + m; ++k) amtCombos *= 3;
      for (long long pc = 0; pc < posCombos; ++pc) {
        if ((idx++) % nshards != shard) continue;
        Inst in;
        long long w = pc;
        for (int i = 0; i < n; ++i) in.u.push_back(w % 4), w /= 4;
        for (int j = 0; j < m; ++j) in.v.push_back(w % 4), w /= 4;
        for (long long ac = 0; ac < amtCombos; ++ac) {
          in.s.clear();
          in.d.clear();
          long long x = ac;
          ll S = 0, D = 0;
          for (int i = 0; i < n; ++i) in.s.push_back(x % 3), S += x % 3, x /= 3;
          for (int j = 0; j < m; ++j) in.d.push_back(x % 3), D += x % 3, x /= 3;
          in.balance = S > D;
          ++R.exhaustiveStates;
          R.heartbeat();
          bool nt;
          if (!judge(in, R, true, nt)) {
            R.failReason += " instance " + in.json();
            R.sample("{\"failing\":" + in.json() + "}");
            failTape.w = {0xE7E7E7E7u, (uint32_t)n, (uint32_t)m};
            for (ll q : in.u) failTape.w.push_back((uint32_t)q);
            for (ll q : in.v) failTape.w.push_back((uint32_t)q);
            for (ll q : in.s) failTape.w.push_back((uint32_t)q);
            for (ll q : in.d) failTape.w.push_back((uint32_t)q);
            return false;
          }
          if (nt) ++R.nontrivialCount;
        }
      }
    }
  R.exhaustiveDone = true;
  R.sample("{\"exhaustive\":\"1..3 sources x 1..3 sinks, positions 0..3, supplies 0..2, demands 0..2, balanceDemand() when supply exceeds demand\"}");
  return true;
}
}  // namespace verif
