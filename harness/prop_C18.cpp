// C18 — cell expansion respects density caps and never touches fixed cells.
#include <cmath>

#include "gen_circuit.hpp"

using namespace coloquinte;

namespace verif {
const char *propId() { return "C18"; }

namespace {
struct Areas {
  double hi = 0;      // sum over free segments of max(0, w - 2*margin*h) * h, real valued
  long long lo = 0;   // same with the width truncated to an integer per segment
  double plain = 0;   // without margin
};
Areas available(const CircuitSpec &s, double margin) {
  Areas a;
  for (auto &sg : specFreeSegments(s)) {
    double h = s.rowHeight, w = (double)(sg.maxX - sg.minX);
    a.plain += w * h;
    double wm = w - 2.0 * margin * h;
    if (wm > 0) {
      a.hi += wm * h;
      a.lo += (long long)std::floor(wm) * (long long)h;
    }
  }
  return a;
}
bool step(Circuit &c, const CircuitSpec &s, int mode, Tape &t, Report &R, double &lastMargin, bool first);
}  // namespace

bool prop(Tape &t, Report &R) {
  HistoryScope hist(t, R);
  GenOpts o;
  o.maxCells = R.thorough() ? 40 : 20;
  o.zeroSizeMovable = true;
  o.nets = t.flip(1, 4);
  o.overfull = false;
  CircuitSpec s = genCircuit(t, o);
  int mode = t.weighted({3, 3, 2});
  static const char *mn[] = {"api:expandCellsToDensity", "api:expandCellsByFactor", "api:computeCellExpansion"};
  s.labels.insert(mn[mode]);
  for (auto &l : s.labels) R.classify(l);
  Circuit c = s.build();
  double lastMargin = -1;
  if (!step(c, s, mode, t, R, lastMargin, true)) return false;
  // object history (decided last): the same Circuit object is modified through its public
  // setters (fixed cells moved / turned) and expanded again, often with the same side margin;
  // every clause is judged again against the new contents
  int steps = t.weighted({2, 1, 1});
  for (int st = 0; st < steps; ++st) {
    std::vector<int> fixedIdx;
    for (size_t i = 0; i < s.cells.size(); ++i) {
      s.cells[i].w = c.cellWidth_[i];
      if (s.cells[i].fixed) fixedIdx.push_back((int)i);
    }
    int route = t.choose(0, 2);
    static const char *rn[] = {"setCellX/Y", "setSolution", "setCellOrientation"};
    if (!fixedIdx.empty()) {
      int nmove = t.choose(1, std::min<int>(3, (int)fixedIdx.size()));
      for (int k = 0; k < nmove; ++k) {
        CellSpec &cs = s.cells[fixedIdx[t.choose(0, (int)fixedIdx.size() - 1)]];
        if (route == 2) {
          cs.orient = t.choose(0, 7);
        } else {
          cs.x += (int)t.range(-3 * s.rowHeight, 3 * s.rowHeight);
          cs.y += (int)t.range(-3, 3) * s.rowHeight;
          if (route == 1 && t.flip(1, 3)) cs.orient = t.choose(0, 7);
        }
      }
    }
    std::vector<int> xs, ys;
    std::vector<CellOrientation> os;
    PlacementSolution sol;
    for (auto &cs : s.cells) {
      xs.push_back(cs.x), ys.push_back(cs.y), os.push_back((CellOrientation)cs.orient);
      sol.push_back(CellPlacement(cs.x, cs.y, (CellOrientation)cs.orient));
    }
    if (route == 0) c.setCellX(xs), c.setCellY(ys);
    else if (route == 1) c.setSolution(sol);
    else c.setCellOrientation(os);
    R.classify(std::string("history:") + rn[route] + (fixedIdx.empty() ? "(no fixed cell)" : ""));
    int mode2 = t.weighted({3, 3, 2});
    if (!step(c, s, mode2, t, R, lastMargin, false)) {
      R.failReason = std::string("after moving fixed cells with ") + rn[route] + " on a circuit that was expanded before: " + R.failReason;
      return false;
    }
  }
  return true;
}

namespace {
bool step(Circuit &c, const CircuitSpec &s, int mode, Tape &t, Report &R, double &lastMargin, bool first) {
  auto pickMargin = [&]() -> double {
    double m;
    if (lastMargin >= 0 && t.flip(2, 3)) m = lastMargin;
    else m = t.flip() ? 0.0 : t.real(0.0, 2.0);
    lastMargin = m;
    return m;
  };
  Frame before = snap(c);
  int n = c.nbCells();
  std::vector<int> movable;
  long long hmax = 0, sumH = 0;
  std::set<int> heights;
  double cellArea = 0;
  for (int i = 0; i < n; ++i)
    if (!c.isFixed(i)) {
      movable.push_back(i);
      hmax = std::max<long long>(hmax, c.cellHeight_[i]);
      sumH += c.cellHeight_[i];
      heights.insert(c.cellHeight_[i]);
      cellArea += (double)c.cellWidth_[i] * c.cellHeight_[i];
    }
  if (movable.empty()) {
    if (first) R.discard("no movable cell");
    return true;
  }
  int maxRowWidth = 0;
  for (auto &r : s.rows) maxRowWidth = std::max(maxRowWidth, r.maxX - r.minX);

  auto frameOk = [&](const char *what) -> std::string {
    Frame after = snap(c);
    Frame b2 = before;
    // only movable widths may differ
    for (int i : movable) b2.w[i] = after.w[i];
    std::string d = diffFrame(b2, after, false, true);
    if (!d.empty()) return std::string(what) + " changed more than the widths of movable cells: " + d;
    return "";
  };
  auto movArea = [&]() {
    double a = 0;
    for (int i : movable) a += (double)c.cellWidth_[i] * c.cellHeight_[i];
    return a;
  };

  if (mode == 0) {
    double target = t.real(0.01, 0.99), margin = pickMargin(), cap = t.flip() ? 1.0 : t.real(0.05, 1.5);
    Areas av = available(s, margin);
    try {
      c.expandCellsToDensity(target, margin, cap);
    } catch (const std::exception &e) {
      return R.fail(std::string("expandCellsToDensity threw: ") + e.what());
    }
    std::string e = frameOk("expandCellsToDensity");
    if (!e.empty()) return R.fail(e + " " + s.json());
    double capW = (double)maxRowWidth * cap;
    bool hitCap = false;
    for (int i : movable) {
      if (capW >= before.w[i] && c.cellWidth_[i] < before.w[i]) {
        std::ostringstream m;
        m << "expandCellsToDensity made movable cell " << i << " narrower (" << before.w[i] << " -> " << c.cellWidth_[i]
          << ") although the width cap " << capW << " is not below its width";
        return R.fail(m.str() + " " + s.json());
      }
      if ((double)c.cellWidth_[i] >= capW - 1.0) hitCap = true;
      if (before.w[i] > 0 && before.h[i] > 0 && capW < before.w[i]) hitCap = true;
    }
    double after = movArea();
    double slack = 1e-5 * std::max(av.hi, 1.0) + (double)sumH;
    bool expanded = after != cellArea;
    if (expanded && after > target * av.hi + slack) {
      std::ostringstream m;
      m << "expandCellsToDensity pushed the movable area to " << after << ", above target " << target << " x available area "
        << av.hi << " (+ rounding slack " << slack << ")";
      return R.fail(m.str() + " " + s.json());
    }
    bool below = av.lo > 0 && cellArea > 0 && cellArea / (double)av.lo < target;
    if (below && !hitCap) {
      double lower = target * (double)av.lo - (double)hmax - 1e-5 * std::max(av.hi, 1.0);
      if (after < lower) {
        std::ostringstream m;
        m << "target density reachable without the per-cell cap, but the movable area " << after << " stays more than one cell height below target "
          << target << " x available area " << av.lo;
        return R.fail(m.str() + " " + s.json());
      }
    }
    bool areaChanged = av.plain > 0 && (av.plain - av.hi) >= 0.05 * av.plain;
    bool obstructed = false;
    for (auto &l : s.labels) obstructed |= l.rfind("fixed:obstruction", 0) == 0;
    if (heights.size() >= 2 && movable.size() >= 2 && (areaChanged || obstructed) && expanded)
      R.nontrivial(s.hash() ^ Hasher().addd(target).addd(margin).addd(cap).h, [&] {
        std::ostringstream m;
        m << "{\"target\":" << target << ",\"margin\":" << margin << ",\"cap\":" << cap << ",\"circuit\":" << s.json(10) << "}";
        return m.str();
      });
    return true;
  }
  if (mode == 1) {
    double maxDensity = t.flip() ? 1.0 : t.real(0.05, 1.5), margin = pickMargin();
    std::vector<float> f(n);
    for (int i = 0; i < n; ++i) f[i] = t.flip(1, 3) ? 1.0f : (float)t.real(1.0, 4.0);
    Areas av = available(s, margin);
    double ret = 0;
    try {
      ret = c.expandCellsByFactor(f, maxDensity, margin);
    } catch (const std::exception &e) {
      return R.fail(std::string("expandCellsByFactor threw on factors >= 1: ") + e.what());
    }
    (void)ret;
    std::string e = frameOk("expandCellsByFactor");
    if (!e.empty()) return R.fail(e + " " + s.json());
    for (int i : movable) {
      if (c.cellWidth_[i] < before.w[i]) {
        std::ostringstream m;
        m << "expandCellsByFactor made movable cell " << i << " narrower (" << before.w[i] << " -> " << c.cellWidth_[i] << ") with factor " << f[i];
        return R.fail(m.str() + " " + s.json());
      }
      // never beyond the requested factor (+1 for rounding)
      if ((double)c.cellWidth_[i] > (double)before.w[i] * (double)f[i] + 1.0) {
        std::ostringstream m;
        m << "expandCellsByFactor widened cell " << i << " beyond its factor: " << before.w[i] << " x " << f[i] << " -> " << c.cellWidth_[i];
        return R.fail(m.str() + " " + s.json());
      }
    }
    double after = movArea();
    bool expanded = after != cellArea;
    double slack = 1e-5 * std::max(av.hi, 1.0) + (double)sumH;
    if (expanded && after > maxDensity * av.hi + slack) {
      std::ostringstream m;
      m << "expandCellsByFactor pushed the movable area to " << after << ", above the cap " << maxDensity << " x available area " << av.hi << " (+ slack " << slack << ")";
      return R.fail(m.str() + " " + s.json());
    }
    bool areaChanged = av.plain > 0 && (av.plain - av.hi) >= 0.05 * av.plain;
    bool obstructed = false;
    for (auto &l : s.labels) obstructed |= l.rfind("fixed:obstruction", 0) == 0;
    if (heights.size() >= 2 && movable.size() >= 2 && (areaChanged || obstructed) && expanded)
      R.nontrivial(s.hash() ^ Hasher().addd(maxDensity).addd(margin).add(1).h, [&] {
        std::ostringstream m;
        m << "{\"maxDensity\":" << maxDensity << ",\"margin\":" << margin << ",\"circuit\":" << s.json(10) << "}";
        return m.str();
      });
    return true;
  }
  // computeCellExpansion
  int nr = t.choose(0, 6);
  std::vector<Circuit::CongestionRegion> map;
  long long aMinX = LLONG_MAX, aMaxX = LLONG_MIN, aMinY = LLONG_MAX, aMaxY = LLONG_MIN;
  for (auto &r : s.rows) {
    aMinX = std::min<long long>(aMinX, r.minX), aMaxX = std::max<long long>(aMaxX, r.maxX);
    aMinY = std::min<long long>(aMinY, r.minY), aMaxY = std::max<long long>(aMaxY, r.maxY);
  }
  for (int k = 0; k < nr; ++k) {
    long long x0, y0, x1, y1;
    if (t.flip() && !movable.empty()) {
      // around a cell
      int i = movable[t.choose(0, (int)movable.size() - 1)];
      Rectangle p = c.placement(i);
      x0 = p.minX + t.range(-3, 3), x1 = p.maxX + t.range(-3, 3), y0 = p.minY + t.range(-3, 3), y1 = p.maxY + t.range(-3, 3);
    } else {
      x0 = t.range(aMinX - 5, aMaxX), x1 = x0 + t.range(0, aMaxX - aMinX + 5);
      y0 = t.range(aMinY - 5, aMaxY), y1 = y0 + t.range(0, aMaxY - aMinY + 5);
    }
    if (x1 < x0) std::swap(x0, x1);
    if (y1 < y0) std::swap(y0, y1);
    map.emplace_back(Rectangle((int)x0, (int)x1, (int)y0, (int)y1), (float)t.real(0.0, 3.0));
  }
  float fixedPenalty = t.flip() ? 0.0f : (float)t.real(0.0, 2.0), penaltyFactor = t.flip() ? 1.0f : (float)t.real(1.0, 3.0);
  // the same rectangle reported more than once with other values (e.g. once per routing layer);
  // decided after the other choices of this call
  if (!map.empty()) {
    int ndup = t.weighted({2, 1, 1});
    for (int k = 0; k < ndup; ++k) {
      Rectangle r = map[t.choose(0, (int)map.size() - 1)].first;
      map.emplace_back(r, (float)t.real(0.0, 3.0));
    }
    if (ndup) R.classify("congestion-map:repeated-rectangles");
    nr = (int)map.size();
  }
  std::vector<float> got;
  try {
    got = c.computeCellExpansion(map, fixedPenalty, penaltyFactor);
  } catch (const std::exception &e) {
    return R.fail(std::string("computeCellExpansion threw on valid arguments: ") + e.what());
  }
  if ((int)got.size() != n) return R.fail("computeCellExpansion result size");
  std::string e = diffFrame(before, snap(c), false, true);
  if (!e.empty()) return R.fail("computeCellExpansion modified the circuit: " + e);
  bool overlapMax = false;
  for (int i = 0; i < n; ++i) {
    double want = 1.0;
    int hits = 0;
    if (!c.isFixed(i)) {
      Rectangle p = c.placement(i);
      if (p.minX >= p.maxX || p.minY >= p.maxY) continue;  // zero-area cells: 'intersects' is ambiguous, not judged
      for (auto &reg : map) {
        const Rectangle &r = reg.first;
        bool inter = r.minX < p.maxX && p.minX < r.maxX && r.minY < p.maxY && p.minY < r.maxY;
        if (reg.second > 1.0f && inter) {
          ++hits;
          want = std::max(want, ((double)reg.second - 1.0) * penaltyFactor + fixedPenalty + 1.0);
        }
      }
    }
    if (hits >= 2) overlapMax = true;
    if (std::fabs((double)got[i] - want) > 1e-5 * std::max(1.0, want)) {
      std::ostringstream m;
      m << "computeCellExpansion gives " << got[i] << " for " << (c.isFixed(i) ? "fixed" : "movable") << " cell " << i
        << ", expected " << want << " (" << hits << " congested regions intersect it)";
      return R.fail(m.str() + " " + s.json());
    }
  }
  if (overlapMax)
    R.nontrivial(s.hash() ^ Hasher().add(nr).addd(fixedPenalty).addd(penaltyFactor).h, [&] {
      std::ostringstream m;
      m << "{\"regions\":" << nr << ",\"fixedPenalty\":" << fixedPenalty << ",\"penaltyFactor\":" << penaltyFactor << ",\"cells\":" << n << "}";
      return m.str();
    });
  return true;
}
}  // namespace

bool exhaustive(Report &, int, int, Tape &) { return true; }
}  // namespace verif
