// rapidcheck front end: the tape is generated and shrunk by rapidcheck, the
// property is the same `prop(tape)` every other front end runs.
//
// usage: <ID>_rc <out-prefix>
//   RC_PARAMS="seed=N max_success=M max_size=S" configures rapidcheck.
//   VERIF_DEADLINE_S: soft wall-clock budget; once exceeded the remaining
//   cases are skipped (not evaluated, not counted) so that the worker ends
//   as "budget hit", never as a violation.
#include <fcntl.h>
#include <rapidcheck.h>
#include <sys/mman.h>
#include <unistd.h>

#include <chrono>
#include <iostream>
#include <sstream>

#include "evidence.hpp"

using namespace verif;

namespace {
constexpr size_t kCurWords = 1 << 16;
uint32_t *curMap = nullptr;

void publishCurrent(const std::vector<uint32_t> &w) {
  if (!curMap) return;
  size_t n = std::min(w.size(), kCurWords - 1);
  curMap[0] = 0;  // invalidate while writing
  if (n) std::memcpy(curMap + 1, w.data(), n * 4);
  curMap[0] = (uint32_t)n + 1;  // length+1 so that an empty tape is visible
}
}  // namespace

int main(int argc, char **argv) {
  if (argc < 2) {
    std::fprintf(stderr, "usage: %s <out-prefix>\n", argv[0]);
    return 2;
  }
  std::string prefix = argv[1];
  // Silence the library's progress chatter.
  NullBuf &sink = *new NullBuf();
  std::streambuf *oldCout = std::cout.rdbuf(&sink);

  {
    std::string cur = prefix + ".cur";
    int fd = open(cur.c_str(), O_RDWR | O_CREAT | O_TRUNC, 0644);
    if (fd >= 0 && ftruncate(fd, kCurWords * 4) == 0) {
      void *m = mmap(nullptr, kCurWords * 4, PROT_READ | PROT_WRITE,
                     MAP_SHARED, fd, 0);
      if (m != MAP_FAILED) curMap = (uint32_t *)m;
    }
    if (fd >= 0) close(fd);
  }

  double deadline = 0;
  if (const char *d = std::getenv("VERIF_DEADLINE_S")) deadline = atof(d);
  int wordSize = 100;
  unsigned caseTimeout = 30;
  if (const char *d = std::getenv("VERIF_CASE_TIMEOUT_S")) caseTimeout = atoi(d);
  auto start = std::chrono::steady_clock::now();

  double shrinkBudget = 40;
  if (const char *d = std::getenv("VERIF_SHRINK_S")) shrinkBudget = atof(d);
  auto failTime = std::chrono::steady_clock::now();
  Report R;
  long long skipped = 0;
  bool failedOnce = false;
  std::vector<uint32_t> lastFail;
  std::string lastReason;

  auto gen = rc::gen::container<std::vector<uint32_t>>(
      rc::gen::resize(wordSize, rc::gen::arbitrary<uint32_t>()));
  // Tapes longer than rapidcheck's size parameter are needed for the larger
  // decoders: scale the container size by 8.
  double tapeScale = 8.0;
  if (const char *d = std::getenv("VERIF_TAPE_SCALE")) tapeScale = atof(d);
  auto genScaled = rc::gen::scale(tapeScale, gen);

  bool ok = rc::check(propId(), [&]() {
    std::vector<uint32_t> words = *genScaled;
    if (!failedOnce && deadline > 0) {
      double el = std::chrono::duration<double>(
                      std::chrono::steady_clock::now() - start)
                      .count();
      if (el > deadline) {
        ++skipped;
        return;
      }
    }
    if (failedOnce && shrinkBudget > 0) {
      // bound the time spent shrinking: once exceeded every further candidate
      // is reported as passing, so rapidcheck stops at the smallest failure
      // found so far (which is already saved)
      double el = std::chrono::duration<double>(
                      std::chrono::steady_clock::now() - failTime)
                      .count();
      if (el > shrinkBudget) return;
    }
    publishCurrent(words);
    alarm(caseTimeout);  // a case that does not end is killed: SIGALRM
    Tape t(words);
    R.failReason.clear();
    R.beginCase();
    bool good = prop(t, R);
    alarm(0);
    if (!R.frozen && (R.evaluations & (R.evaluations - 1)) == 0)
      R.write(prefix);
    else if (!R.frozen && R.evaluations % 1024 == 0)
      R.write(prefix);
    if (!good) {
      if (!failedOnce) failTime = std::chrono::steady_clock::now();
      failedOnce = true;
      R.frozen = true;  // shrinking starts: stop recording evidence
      lastFail = words;
      lastReason = R.failReason;
      Tape(words).save(prefix + ".fail.tape");
      FILE *f = std::fopen((prefix + ".fail.txt").c_str(), "w");
      if (f) {
        std::fputs(lastReason.c_str(), f);
        std::fclose(f);
      }
      RC_FAIL(lastReason);
    }
  });

  std::cout.rdbuf(oldCout);
  R.frozen = false;
  R.failReason = lastReason;
  if (skipped) R.cls["budget_skipped_cases"] = skipped;
  R.write(prefix);
  if (curMap) curMap[0] = 0;
  if (failedOnce) {
    std::printf("FALSIFIED %s\n", lastReason.c_str());
    return 1;
  }
  if (!ok) {
    std::printf("GAVEUP\n");
    return 3;
  }
  std::printf("OK evaluations=%lld skipped=%lld\n", R.evaluations, skipped);
  return 0;
}
