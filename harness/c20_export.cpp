// C20 helper: read a circuit description from a text file, build the Circuit
// with the library under test, export it with Circuit::exportIspd and print
// the library's hpwl().  One case per invocation.
#include <fstream>
#include <iostream>

#include "coloquinte.hpp"

using namespace coloquinte;

int main(int argc, char **argv) {
  if (argc < 3) return 2;
  std::ifstream in(argv[1]);
  std::string prefix = argv[2];
  int n;
  in >> n;
  Circuit c(n);
  std::vector<int> w(n), h(n), x(n), y(n);
  std::vector<bool> fx(n), ob(n);
  std::vector<CellOrientation> o(n);
  for (int i = 0; i < n; ++i) {
    int oi, f, b;
    in >> w[i] >> h[i] >> x[i] >> y[i] >> oi >> f >> b;
    o[i] = (CellOrientation)oi;
    fx[i] = f;
    ob[i] = b;
  }
  c.setCellWidth(w);
  c.setCellHeight(h);
  c.setCellX(x);
  c.setCellY(y);
  c.setCellOrientation(o);
  c.setCellIsFixed(fx);
  c.setCellIsObstruction(ob);
  int nr;
  in >> nr;
  std::vector<Row> rows;
  for (int i = 0; i < nr; ++i) {
    int a, b, cc, d, oi;
    in >> a >> b >> cc >> d >> oi;
    rows.emplace_back(a, b, cc, d, (CellOrientation)oi);
  }
  c.setRows(rows);
  int nn;
  in >> nn;
  for (int k = 0; k < nn; ++k) {
    int deg;
    in >> deg;
    std::vector<int> cs(deg), xo(deg), yo(deg);
    for (int q = 0; q < deg; ++q) in >> cs[q] >> xo[q] >> yo[q];
    c.addNet(cs, xo, yo);
  }
  if (!in) return 3;
  c.exportIspd(prefix);
  std::cout << c.hpwl() << std::endl;
  return 0;
}
