// Choice tape: every random decision of a property is read from a finite
// sequence of 32-bit words.  Reading past the end yields 0, which every
// decoder maps to its simplest choice, so that rapidcheck's shrinking
// (drop chunks, shrink words toward 0) and libFuzzer's byte mutations both
// produce valid, progressively simpler cases.  No RNG, clock or hash order is
// consulted anywhere else.
#pragma once

#include <cstdint>
#include <cstdio>
#include <cstring>
#include <string>
#include <vector>

namespace verif {

struct Tape {
  std::vector<uint32_t> w;
  size_t pos = 0;

  Tape() {}
  explicit Tape(std::vector<uint32_t> words) : w(std::move(words)) {}
  Tape(const uint8_t *data, size_t size) {
    w.resize(size / 4);
    if (!w.empty()) std::memcpy(w.data(), data, w.size() * 4);
  }

  uint32_t next() {
    uint32_t r = pos < w.size() ? w[pos] : 0u;
    ++pos;
    return r;
  }
  bool exhausted() const { return pos >= w.size(); }

  /// Integer in [lo, hi] (inclusive); word 0 gives lo.
  long long range(long long lo, long long hi) {
    if (hi <= lo) {
      next();
      return lo;
    }
    unsigned long long n = (unsigned long long)(hi - lo) + 1ULL;
    return lo + (long long)(next() % n);
  }
  int choose(int lo, int hi) { return (int)range(lo, hi); }

  /// True with probability num/den; word 0 gives false.
  bool flip(int num = 1, int den = 2) {
    return (int)(next() % (uint32_t)den) >= den - num;
  }

  /// Index into a weight table; word 0 gives index 0.
  int weighted(std::initializer_list<int> weights) {
    int tot = 0;
    for (int x : weights) tot += x;
    int v = (int)(next() % (uint32_t)tot);
    int i = 0;
    for (int x : weights) {
      if (v < x) return i;
      v -= x;
      ++i;
    }
    return i - 1;
  }

  /// Real in [lo, hi] with 2^-16 resolution; word 0 gives lo.  One word in eight (upper bits
  /// all set) snaps to an end of the interval: boundary values are where range checks and
  /// rounding go wrong.
  double real(double lo, double hi) {
    uint32_t x = next();
    uint32_t v = x & 0xFFFFu;
    if (((x >> 16) & 7u) == 7u) return (v & 1u) ? hi : lo;
    return lo + (hi - lo) * (double)v / 65535.0;
  }

  /// Signed integer with magnitude class chosen first (small values likely).
  long long magnitude(long long maxAbs) {
    int cls = weighted({4, 3, 2, 1});
    long long lim = cls == 0 ? 8 : cls == 1 ? 256 : cls == 2 ? 65536 : maxAbs;
    if (lim > maxAbs) lim = maxAbs;
    uint32_t v = next();
    long long m = (long long)(v >> 1) % (lim + 1);
    return (v & 1u) ? -m : m;
  }

  static bool load(const std::string &path, Tape &t) {
    FILE *f = std::fopen(path.c_str(), "rb");
    if (!f) return false;
    std::vector<uint8_t> buf;
    uint8_t tmp[4096];
    size_t n;
    while ((n = std::fread(tmp, 1, sizeof tmp, f)) > 0)
      buf.insert(buf.end(), tmp, tmp + n);
    std::fclose(f);
    t = Tape(buf.data(), buf.size());
    return true;
  }
  bool save(const std::string &path) const {
    FILE *f = std::fopen(path.c_str(), "wb");
    if (!f) return false;
    if (!w.empty()) std::fwrite(w.data(), 4, w.size(), f);
    std::fclose(f);
    return true;
  }
};

inline uint64_t hashMix(uint64_t h, uint64_t v) {
  h ^= v + 0x9e3779b97f4a7c15ULL + (h << 6) + (h >> 2);
  h *= 0xff51afd7ed558ccdULL;
  h ^= h >> 33;
  return h;
}

struct Hasher {
  uint64_t h = 0x243f6a8885a308d3ULL;
  Hasher &add(long long v) {
    h = hashMix(h, (uint64_t)v);
    return *this;
  }
  Hasher &addd(double v) {
    uint64_t b;
    std::memcpy(&b, &v, 8);
    return add((long long)b);
  }
  template <class V>
  Hasher &addv(const V &v) {
    add((long long)v.size());
    for (auto x : v) add((long long)x);
    return *this;
  }
};

/// Deterministic expansion of one tape word into a long tape (splitmix64): lets
/// a property append a *large* companion instance to a case without needing a
/// tape of thousands of words; still a pure function of the tape.
inline Tape expandTape(uint64_t seed, size_t n) {
  Tape t;
  t.w.resize(n);
  uint64_t x = seed * 0x9E3779B97F4A7C15ULL + 0x632BE59BD9B4E019ULL;
  for (size_t i = 0; i < n; ++i) {
    x += 0x9E3779B97F4A7C15ULL;
    uint64_t z = x;
    z = (z ^ (z >> 30)) * 0xBF58476D1CE4E5B9ULL;
    z = (z ^ (z >> 27)) * 0x94D049BB133111EBULL;
    z ^= z >> 31;
    t.w[i] = (uint32_t)(z >> 16);
  }
  return t;
}
}  // namespace verif
