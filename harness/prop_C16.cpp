// C16 — density bins account for all free area; every cell of non-zero area is
// in exactly one bin through any history of refine / coarsen / rough
// legalization passes; reported coordinates lie inside the cell's bin.
// Oracle: interval arithmetic on the harness's own list of free regions.
#include <cmath>
#include <memory>

#include "gen_circuit.hpp"
#include "place_global/density_legalizer.hpp"

using namespace coloquinte;

namespace verif {
const char *propId() { return "C16"; }

namespace {
long long regionArea(const std::vector<Rectangle> &regions, long long x0, long long x1, long long y0, long long y1) {
  long long a = 0;
  for (const Rectangle &r : regions) {
    long long ax = std::max<long long>(r.minX, x0), bx = std::min<long long>(r.maxX, x1);
    long long ay = std::max<long long>(r.minY, y0), by = std::min<long long>(r.maxY, y1);
    if (ax < bx && ay < by) a += (bx - ax) * (by - ay);
  }
  return a;
}

double ulpF(double v) {
  float f = (float)std::fabs(v);
  return (double)(std::nextafter(f, INFINITY) - f);
}

/// All invariants of the property on the current view.
std::string invariants(const DensityLegalizer &leg, const std::vector<Rectangle> &regions, const std::vector<int> &demand,
                       const std::vector<float> &tx, const std::vector<float> &ty) {
  std::ostringstream m;
  int nx = leg.nbBinsX(), ny = leg.nbBinsY();
  Rectangle area = leg.placementArea();
  // tiling
  if (leg.binLimitX(0) != area.minX || leg.binLimitX(nx) != area.maxX || leg.binLimitY(0) != area.minY || leg.binLimitY(ny) != area.maxY)
    return "bin limits do not span the placement area";
  for (int i = 0; i < nx; ++i)
    if (leg.binLimitX(i) > leg.binLimitX(i + 1)) return "x bin limits decrease";
  for (int j = 0; j < ny; ++j)
    if (leg.binLimitY(j) > leg.binLimitY(j + 1)) return "y bin limits decrease";
  // capacity of every bin of the current view = free area inside it
  long long tot = 0;
  for (int i = 0; i < nx; ++i)
    for (int j = 0; j < ny; ++j) {
      long long want = regionArea(regions, leg.binLimitX(i), leg.binLimitX(i + 1), leg.binLimitY(j), leg.binLimitY(j + 1));
      long long got = leg.binCapacity(i, j);
      tot += got;
      if (got != want) {
        m << "capacity of bin (" << i << "," << j << ") [" << leg.binLimitX(i) << "," << leg.binLimitX(i + 1) << ")x["
          << leg.binLimitY(j) << "," << leg.binLimitY(j + 1) << ") at level (" << leg.levelX() << "," << leg.levelY()
          << ") is " << got << ", free area inside it is " << want;
        return m.str();
      }
    }
  long long all = regionArea(regions, area.minX, area.maxX, area.minY, area.maxY);
  if (tot != all || leg.totalCapacity() != all) {
    m << "total capacity " << tot << " / " << leg.totalCapacity() << " differs from the free area " << all;
    return m.str();
  }
  // every cell of positive demand in exactly one bin, others in none
  int n = demand.size();
  std::vector<int> count(n, 0), bx(n, -1), by(n, -1);
  for (int i = 0; i < nx; ++i)
    for (int j = 0; j < ny; ++j)
      for (int c : leg.binCells(i, j)) {
        if (c < 0 || c >= n) return "bin holds an invalid cell index";
        ++count[c];
        bx[c] = i, by[c] = j;
      }
  for (int c = 0; c < n; ++c) {
    if (demand[c] > 0 && count[c] != 1) {
      m << "cell " << c << " with demand " << demand[c] << " is in " << count[c] << " bins";
      return m.str();
    }
    if (demand[c] <= 0 && count[c] != 0) {
      m << "cell " << c << " with zero demand is in a bin";
      return m.str();
    }
    if (demand[c] > 0 && (leg.cellBinX(c) != bx[c] || leg.cellBinY(c) != by[c])) {
      m << "cellBinX/Y of cell " << c << " disagree with the bin lists";
      return m.str();
    }
    if (leg.cellDemand(c) != demand[c]) return "cell demand changed";
  }
  // reported coordinates inside the bin
  std::vector<float> sx = leg.spreadCoordX(tx), sy = leg.spreadCoordY(ty), px = leg.simpleCoordX(), py = leg.simpleCoordY();
  double mag = std::max({std::fabs((double)area.minX), std::fabs((double)area.maxX), std::fabs((double)area.minY), std::fabs((double)area.maxY), 1.0});
  double tol0 = 2 * ulpF(mag);
  for (int c = 0; c < n; ++c) {
    if (demand[c] <= 0) continue;
    double lx = leg.binLimitX(bx[c]), hx = leg.binLimitX(bx[c] + 1), ly = leg.binLimitY(by[c]), hy = leg.binLimitY(by[c] + 1);
    // the spread position is a single-precision running sum over the cells of the bin: one rounding
    // per cell, each at most 2^-23 of the bin extent
    double tol = tol0 + (n + 4) * std::ldexp(std::max(hx - lx, hy - ly), -23);
    auto in = [&](double v, double lo, double hi) { return std::isfinite(v) && v >= lo - tol && v <= hi + tol; };
    if (!in(sx[c], lx, hx) || !in(sy[c], ly, hy)) {
      m << "spread coordinate (" << sx[c] << "," << sy[c] << ") of cell " << c << " is outside its bin [" << lx << "," << hx << "]x[" << ly << "," << hy << "]";
      return m.str();
    }
    if (!in(px[c], lx, hx) || !in(py[c], ly, hy)) {
      m << "simple coordinate (" << px[c] << "," << py[c] << ") of cell " << c << " is outside its bin";
      return m.str();
    }
  }
  return "";
}

DensityLegalizer::Parameters genLegParams(Tape &t, double areaSpan) {
  DensityLegalizer::Parameters p;
  p.nbSteps = t.choose(0, 3);
  p.costModel = (LegalizationModel)t.choose(0, 5);
  p.lineReoptSize = t.choose(1, 6);
  p.lineReoptOverlap = p.lineReoptSize > 1 ? t.choose(1, p.lineReoptSize - 1) : 1;
  p.diagReoptSize = t.choose(1, 5);
  p.diagReoptOverlap = p.diagReoptSize > 1 ? t.choose(1, p.diagReoptSize - 1) : 1;
  p.squareReoptSize = t.choose(1, 4);
  p.squareReoptOverlap = p.squareReoptSize > 1 ? t.choose(1, p.squareReoptSize - 1) : 1;
  p.unidimensionalTransport = t.flip() && p.costModel == LegalizationModel::L1;
  p.coarseningLimit = t.real(0.5, 200);
  bool plain = p.costModel == LegalizationModel::L1 || p.costModel == LegalizationModel::L2 || p.costModel == LegalizationModel::LInf;
  p.quadraticPenaltyFactor = plain ? t.real(0, 1) / std::max(1.0, areaSpan) : 0.0;
  return p;
}
}  // namespace

bool prop(Tape &t, Report &R) {
  int src = t.weighted({3, 2});
  std::vector<Rectangle> regions;
  std::vector<int> demand;
  bool hugeCell = false;
  int binSize = 1;
  DensityLegalizer *legp = nullptr;
  std::string desc;
  CircuitSpec spec;
  if (src == 0) {
    // (i) direct: disjoint row-like regions
    R.classify("source:regions");
    int h = t.choose(1, 6);
    int nrow = t.choose(1, 6);
    long long ox = t.magnitude(1 << 20), oy = t.magnitude(1 << 20);
    long long w = t.choose(1, 60);
    for (int r = 0; r < nrow; ++r) {
      if (t.flip(1, 6)) continue;  // a missing row: a hole in the area
      long long x = ox;
      int nseg = t.weighted({3, 2, 1}) + 1;
      for (int k = 0; k < nseg; ++k) {
        long long len = t.range(1, std::max<long long>(1, w / nseg));
        long long gap = k == 0 ? t.range(0, 3) : t.range(1, std::max<long long>(1, w / 3));
        x += gap;
        regions.emplace_back((int)x, (int)(x + len), (int)(oy + r * h), (int)(oy + (r + 1) * h));
        x += len;
      }
    }
    if (regions.empty()) regions.emplace_back((int)ox, (int)(ox + w), (int)oy, (int)(oy + h));
    binSize = t.choose(1, 3 * h);
    int n = t.choose(1, 25);
    for (int c = 0; c < n; ++c) demand.push_back(t.flip(1, 8) ? 0 : t.choose(1, 4) * h * (t.flip(1, 6) ? t.choose(1, 30) : 1));
    // one block millions of times larger than the cells around it (a macro among unit cells);
    // the choice is read from the last word of the tape so that the other choices keep their place
    {
      uint32_t lw = t.w.empty() ? 0 : t.w.back();
      if ((lw >> 6) % 6 == 1) {
        demand[(lw >> 10) % (uint32_t)n] = 10000000 + (int)((lw >> 12) % 1000000u) * 2000;
        hugeCell = true;
        R.classify("cells:one-block-millions-of-times-larger");
      }
    }
    legp = new DensityLegalizer(DensityGrid(binSize, regions), demand);
    std::ostringstream d;
    d << "{\"regions\":" << regions.size() << ",\"binSize\":" << binSize << ",\"cells\":" << n << ",\"first_region\":["
      << regions[0].minX << "," << regions[0].maxX << "," << regions[0].minY << "," << regions[0].maxY << "]";
    desc = d.str();
  } else {
    // (ii) through fromIspdCircuit
    R.classify("source:circuit");
    GenOpts o;
    o.globalDomain = true;
    o.maxCells = 20;
    o.nets = false;
    o.overfull = false;
    o.zeroSizeMovable = true;
    spec = genCircuit(t, o);
    double sizeFactor = t.real(1.0, 25.0), sideMargin = t.real(0.0, 1.5);
    Circuit c = spec.build();
    long long hmin = LLONG_MAX;
    for (auto &cs : spec.cells)
      if (cs.h > 0) hmin = std::min<long long>(hmin, cs.h);
    if (hmin == LLONG_MAX) {
      R.discard("no cell of positive height");
      return true;
    }
    int margin = (int)((float)sideMargin * (float)hmin);
    for (auto &sg : specFreeSegments(spec)) {
      if (sg.maxX - sg.minX <= 2LL * margin) continue;
      regions.emplace_back((int)sg.minX + margin, (int)sg.maxX - margin, (int)sg.y, (int)sg.y + spec.rowHeight);
    }
    if (regions.empty()) {
      R.discard("side margin removes every free row segment");
      return true;
    }
    for (auto &cs : spec.cells) demand.push_back(cs.fixed ? 0 : (int)((long long)cs.w * cs.h));
    legp = new DensityLegalizer(DensityLegalizer::fromIspdCircuit(c, (float)sizeFactor, (float)sideMargin));
    desc = "{\"circuit\":" + spec.json(10) + ",\"sizeFactor\":" + std::to_string(sizeFactor) + ",\"sideMargin\":" + std::to_string(sideMargin);
  }
  std::unique_ptr<DensityLegalizer> owner(legp);
  DensityLegalizer &leg = *legp;
  int n = demand.size();
  Rectangle area = leg.placementArea();
  double span = (double)area.width() + area.height();
  std::vector<float> tx(n, 0.f), ty(n, 0.f);
  auto genTargets = [&](std::vector<float> &v, double lo, double hi) {
    int cls = t.weighted({4, 2, 1, 1});
    for (int c = 0; c < n; ++c) {
      double x;
      if (cls == 0) x = t.real(lo, hi);
      else if (cls == 1) x = t.real(lo - (hi - lo), hi + (hi - lo));  // outside
      else if (cls == 2) x = 0.5 * (lo + hi);                          // coincident
      else x = t.flip() ? lo - 1e4 * (hi - lo + 1) : hi + 1e4 * (hi - lo + 1);  // huge
      v[c] = (float)x;
    }
  };
  genTargets(tx, area.minX, area.maxX);
  genTargets(ty, area.minY, area.maxY);
  leg.updateCellTargetX(tx);
  leg.updateCellTargetY(ty);
  leg.setParams(genLegParams(t, span));

  // non-uniform capacity?
  bool nonUniform = false;
  {
    long long first = -1;
    for (int i = 0; i < leg.grid().nbBinsX(); ++i)
      for (int j = 0; j < leg.grid().nbBinsY(); ++j) {
        long long cap = leg.grid().binCapacity(i, j);
        if (first < 0) first = cap;
        if (cap != first) nonUniform = true;
      }
    R.classify(leg.grid().nbBins() == 1 ? "grid:1-bin" : leg.grid().nbBins() <= 16 ? "grid:2-16-bins" : "grid:17+bins");
  }
  std::string e = invariants(leg, regions, demand, tx, ty);
  if (!e.empty()) return R.fail("after construction: " + e + " " + desc + "}");

  int nops = t.choose(1, 25);
  std::ostringstream hist;
  bool refined = false, coarsenAfterRefine = false, improved = false, zeroCapHeldCells = false;
  for (int k = 0; k < nops; ++k) {
    int op = t.choose(0, 11);
    const char *name = "";
    switch (op) {
      case 0: if (leg.levelX() >= 1) leg.refineX(), name = "refineX", refined = true; break;
      case 1: if (leg.levelY() >= 1) leg.refineY(), name = "refineY", refined = true; break;
      case 2: if (leg.levelX() + 1 < leg.nbLevelX()) leg.coarsenX(), name = "coarsenX", coarsenAfterRefine |= refined; break;
      case 3: if (leg.levelY() + 1 < leg.nbLevelY()) leg.coarsenY(), name = "coarsenY", coarsenAfterRefine |= refined; break;
      case 4: leg.coarsenFully(), name = "coarsenFully", coarsenAfterRefine |= refined; break;
      case 5: leg.refineFully(), name = "refineFully", refined = true; break;
      case 6: if (leg.levelX() > 0 || leg.levelY() > 0) leg.refine(), name = "refine", refined = true; break;
      case 7: leg.improve(), name = "improve", improved = true; break;
      case 8: leg.run(), name = "run", improved = true, refined = true; break;
      case 9: genTargets(tx, area.minX, area.maxX), leg.updateCellTargetX(tx), name = "targetsX"; break;
      case 10: genTargets(ty, area.minY, area.maxY), leg.updateCellTargetY(ty), name = "targetsY"; break;
      default: leg.setParams(genLegParams(t, span)), name = "setParams"; break;
    }
    if (!*name) continue;
    hist << name << " ";
    e = invariants(leg, regions, demand, tx, ty);
    if (!e.empty()) return R.fail("after [" + hist.str() + "]: " + e + " " + desc + "}");
    for (int i = 0; i < leg.nbBinsX(); ++i)
      for (int j = 0; j < leg.nbBinsY(); ++j)
        if (leg.binCapacity(i, j) == 0 && !leg.binCells(i, j).empty()) zeroCapHeldCells = true;
  }
  if (zeroCapHeldCells) R.classify("a-zero-capacity-bin-held-cells");
  if (nonUniform) R.classify("capacity:non-uniform");
  if (nonUniform && coarsenAfterRefine && improved) {
    Hasher h;
    h.add(binSize).add(n);
    for (auto &r : regions) h.add(r.minX).add(r.maxX).add(r.minY);
    h.addv(demand);
    for (char ch : hist.str()) h.add(ch);
    R.nontrivial(h.h, [&] { return desc + ",\"history\":\"" + hist.str() + "\"}"; });
  }
  return true;
}

bool exhaustive(Report &, int, int, Tape &) { return true; }
}  // namespace verif
