// C04 — row polarity / orientation constraints after legalization, at every
// Detailed callback and after detailed placement.
#include "gen_circuit.hpp"
#include "stages.hpp"

using namespace coloquinte;

namespace verif {
const char *propId() { return "C04"; }

namespace {
constexpr uint32_t kExplicit = 0xE7E7E7E7u;

/// level of the row closest to y (ties to the lower one)
long long closestLevel(const CircuitSpec &s, long long y) {
  long long best = s.rows[0].minY;
  for (auto &r : s.rows)
    if (std::llabs(r.minY - y) < std::llabs(best - y)) best = r.minY;
  return best;
}
bool judgeCase(const CircuitSpec &s, const ColoquinteParameters &params, Report &R);
}  // namespace

bool prop(Tape &t, Report &R) {
  if (!t.w.empty() && t.w[0] == kExplicit) {
    t.next();
    int p = (int)(t.next() % 5), o = (int)(t.next() % 10);
    int got = (int)cellOrientationInRow((CellRowPolarity)p, (CellOrientation)o);
    int want = o >= 8 ? ((CellRowPolarity)p == CellRowPolarity::ANY ? (int)CellOrientation::UNKNOWN
                                                                   : (int)CellOrientation::INVALID)
                      : refOrientationInRow((CellRowPolarity)p, o);
    // SAME on an INVALID/UNKNOWN row orientation returns the row orientation itself
    if (o >= 8 && (CellRowPolarity)p == CellRowPolarity::SAME) want = o;
    if (o >= 8 && ((CellRowPolarity)p == CellRowPolarity::NW || (CellRowPolarity)p == CellRowPolarity::SE)) want = (int)CellOrientation::INVALID;
    if (got != want) {
      std::ostringstream m;
      m << "cellOrientationInRow(polarity " << p << ", row orientation " << o << ") = " << got << ", table says " << want;
      return R.fail(m.str());
    }
    if (o < 8) {
      int g2 = (int)oppositeRowOrientation((CellOrientation)o);
      if (g2 != refOpposite(o)) return R.fail("oppositeRowOrientation(" + std::to_string(o) + ") = " + std::to_string(g2));
    }
    return true;
  }
  HistoryScope hist(t, R);
  GenOpts o;
  o.polarisedPct = 60;
  if (R.thorough()) o.maxCells = 60, o.maxLevels = 16;
  CircuitSpec s = genCircuit(t, o);
  ParamOpts po;
  ColoquinteParameters params = genParams(t, po, &s.labels);
  for (auto &l : s.labels) R.classify(l);
  if (s.nbMovable() == 0) {
    R.discard("no movable cell");
    return true;
  }
  // decided at the very end of the tape: a large companion instance, and the order in which
  // the rows are handed to the circuit (no read happens while a case is judged)
  uint32_t tail = t.next();
  uint32_t order = t.next();
  R.classify(permuteRows(s, order));
  {
    // reordering over several rows is off by default: switch it on in a third of the cases
    uint32_t reo = t.next();
    if (reo % 3 == 1) {
      params.detailed.reorderingNbRows = 1 + (int)((reo >> 2) % 3);
      params.detailed.reorderingMaxNbCells = 2 + (int)((reo >> 4) % 4);
      R.classify("params:reordering");
    }
  }
  if (!judgeCase(s, params, R)) return false;
  if (tail % 32 == 1) {
    CircuitSpec big = genLargeCircuit(tail, o, 150);
    permuteRows(big, order);
    if (big.nbMovable() > 0) {
      R.classify(big.nbMovable() >= 100 ? "large:100+cells" : "large:<100cells");
      if (!judgeCase(big, params, R)) return false;
    }
  }
  return true;
}

namespace {
bool judgeCase(const CircuitSpec &s, const ColoquinteParameters &params, Report &R) {
  std::vector<int> orientBefore;
  for (auto &c : s.cells) orientBefore.push_back(c.orient);
  bool polarised = false;
  for (auto &c : s.cells)
    if (!c.fixed && c.polarity != 0) polarised = true;

  // --- after legalization
  Circuit c1 = s.build();
  StageResult r1 = runStage(c1, kLegalize, params);
  if (r1.otherException) return R.fail("legalize threw a non-std exception");
  bool nt = false;
  if (r1.returned) {
    R.classify("legalize:returns");
    std::string e = polarityError(c1, orientBefore);
    if (!e.empty()) return R.fail("after legalize: " + e + " " + s.json());
    for (int i = 0; i < c1.nbCells(); ++i)
      if (!c1.isFixed(i) && s.cells[i].polarity != 0 && c1.y(i) != closestLevel(s, s.cells[i].y)) nt = true;
  } else {
    R.classify("legalize:throws");
  }

  // --- at every Detailed callback and after detailed placement
  Circuit c2 = s.build();
  std::string cbErr;
  int nCb = 0;
  std::vector<int> lastY;
  bool crossed = false;
  PlacementCallback cb = [&](PlacementStep st) {
    if (st != PlacementStep::Detailed) return;
    ++nCb;
    if (cbErr.empty()) {
      std::string e = polarityError(c2, orientBefore);
      if (!e.empty()) cbErr = "at Detailed callback " + std::to_string(nCb) + ": " + e;
    }
    if (!lastY.empty())
      for (int i = 0; i < c2.nbCells(); ++i)
        if (!c2.isFixed(i) && s.cells[i].polarity != 0 && c2.y(i) != lastY[i]) crossed = true;
    lastY = c2.cellY();
  };
  StageResult r2 = runStage(c2, kDetailed, params, cb);
  if (r2.otherException) return R.fail("placeDetailed threw a non-std exception");
  if (!cbErr.empty()) return R.fail(cbErr + " " + s.json());
  if (r2.returned) {
    R.classify("detailed:returns");
    std::string e = polarityError(c2, orientBefore);
    if (!e.empty()) return R.fail("after placeDetailed: " + e + " " + s.json());
    if (!lastY.empty())
      for (int i = 0; i < c2.nbCells(); ++i)
        if (!c2.isFixed(i) && s.cells[i].polarity != 0 && c2.y(i) != lastY[i]) crossed = true;
  } else {
    R.classify("detailed:throws");
  }
  if (crossed) R.classify("polarised-cell-changed-row-in-detailed");
  if (polarised && (nt || crossed)) R.nontrivial(s.hash(), [&] { return s.json(24); });
  return true;
}
}  // namespace

// Exhaustive: the two orientation tables over all 5 polarities x 10 enum values.
bool exhaustive(Report &R, int shard, int nshards, Tape &failTape) {
  int idx = 0;
  for (int p = 0; p < 5; ++p)
    for (int o = 0; o < 10; ++o) {
      if ((idx++) % nshards != shard) continue;
      ++R.exhaustiveStates;
      Tape t;
      t.w = {kExplicit, (uint32_t)p, (uint32_t)o};
      Report tmp;
      tmp.frozen = true;
      if (!prop(t, tmp)) {
        R.failReason = tmp.failReason;
        failTape = t;
        failTape.pos = 0;
        return false;
      }
      if (p != 0) ++R.nontrivialCount;
    }
  R.exhaustiveDone = true;
  R.sample("{\"exhaustive\":\"cellOrientationInRow and oppositeRowOrientation over 5 polarities x 10 orientation values against the harness table\"}");
  return true;
}
}  // namespace verif
