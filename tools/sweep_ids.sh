#!/bin/bash
# usage: tools/sweep_ids.sh <tier> <seed> <ID>...   like sweep.sh, for the listed checks in the listed order
cd "$(dirname "$0")/.."
tier=$1; seed=$2; shift 2
for id in "$@"; do
  out=$(VERIF_SEED=$seed VERIF_OUT_DIR=$PWD/_sweep_out ./check.py $id --tier $tier 2>&1 | grep -v WARNING)
  echo "seed=$seed $id exit=$(echo "$out" | grep -c '^VIOLATION') $(echo "$out" | grep -E "^C[0-9]+ (quick|thorough):" | tail -1)"
  echo "$out" | grep -E "^VIOLATION|^  reason|^inconclusive|^KNOWN" | cut -c1-400 | head -8
done
