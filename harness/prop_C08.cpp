// C08 — placement is deterministic and independent of thread scheduling.
// The harness owns the completion order of the two concurrent solves of every
// lower-bound step through the COLOQUINTE_VERIF hook in
// NetModel::solveWithPenalty.  The `tsan` build of this same file runs the
// global placer under ThreadSanitizer.
#include <sched.h>
#include <unistd.h>

#include <chrono>
#include <condition_variable>
#include <mutex>
#include <thread>

#include "gen_circuit.hpp"
#include "place_global/net_model.hpp"
#include "stages.hpp"

#if defined(__has_feature)
#if __has_feature(thread_sanitizer)
#define VERIF_TSAN 1
#endif
#endif

using namespace coloquinte;

namespace verif {
const char *propId() { return "C08"; }

namespace {
// ---------------------------------------------------------------- scheduler
enum Schedule { kFree = 0, kXThenY = 1, kYThenX = 2, kJitter = 3 };
struct Sched {
  std::mutex m;
  std::condition_variable cv;
  int mode = kFree;
  std::vector<const void *> entered;  // of the current pair
  std::vector<const void *> exited;
  std::vector<int> jitterMs;          // consumed round-robin
  size_t jitterPos = 0;
  long pairs = 0, enforced = 0, firstOk = 0, gaveUp = 0, solves = 0;
  std::vector<const void *> exitOrder;

  void reset(int md, std::vector<int> jit) {
    std::lock_guard<std::mutex> l(m);
    mode = md;
    entered.clear();
    exited.clear();
    jitterMs = std::move(jit);
    jitterPos = 0;
  }
  int nextJitter() {
    if (jitterMs.empty()) return 0;
    return jitterMs[(jitterPos++) % jitterMs.size()];
  }
  bool has(const std::vector<const void *> &v, const void *p) {
    for (auto q : v)
      if (q == p) return true;
    return false;
  }
  void hook(const void *model, int phase) {
    std::unique_lock<std::mutex> l(m);
    if (phase == 0) {
      ++solves;
      if (mode == kFree) return;
      entered.push_back(model);
      cv.notify_all();
      // two-party barrier: both solves of the pair have started
      bool both = cv.wait_for(l, std::chrono::seconds(5), [&] { return entered.size() >= 2; });
      if (!both) {
        ++gaveUp;
        return;
      }
      const void *lo = std::min(entered[0], entered[1]), *hi = std::max(entered[0], entered[1]);
      if (mode == kJitter) {
        int ms = nextJitter();
        l.unlock();
        if (ms) std::this_thread::sleep_for(std::chrono::milliseconds(ms));
        return;
      }
      // xtopo_ is declared before ytopo_ in GlobalPlacer: the lower address is the x model
      const void *mustFinishFirst = mode == kXThenY ? lo : hi;
      if (model != mustFinishFirst) {
        bool ok = cv.wait_for(l, std::chrono::seconds(20), [&] { return has(exited, mustFinishFirst); });
        if (!ok) ++gaveUp;
      }
    } else {
      if (mode == kFree) return;
      if (mode == kJitter) {
        int ms = nextJitter();
        l.unlock();
        if (ms) std::this_thread::sleep_for(std::chrono::milliseconds(ms));
        l.lock();
      }
      exited.push_back(model);
      if (exited.size() == 1 && entered.size() >= 2 && mode != kJitter) {
        ++enforced;
        const void *lo = std::min(entered[0], entered[1]), *hi = std::max(entered[0], entered[1]);
        if (model == (mode == kXThenY ? lo : hi)) ++firstOk;
      }
      cv.notify_all();
      if (exited.size() >= 2) {
        ++pairs;
        entered.clear();
        exited.clear();
      }
    }
  }
};
Sched gSched;
void hookTrampoline(const void *model, int phase) { gSched.hook(model, phase); }

struct RunOut {
  PlacementSolution sol;
  bool returned = false;
  std::string what;
  int lbSteps = 0;
};

RunOut runOnce(Circuit c, int stage, const ColoquinteParameters &p, bool withCallback) {
  RunOut out;
  int lb = 0;
  PlacementCallback cb = [&](PlacementStep st) {
    if (st == PlacementStep::LowerBound) ++lb;
  };
  StageResult r = withCallback ? runStage(c, stage, p, cb) : runStage(c, stage, p);
  out.returned = r.returned;
  out.what = r.what;
  out.sol = c.solution();
  out.lbSteps = lb;
  return out;
}

bool same(const RunOut &a, const RunOut &b) {
  if (a.returned != b.returned || a.sol.size() != b.sol.size()) return false;
  for (size_t i = 0; i < a.sol.size(); ++i)
    if (a.sol[i].position.x != b.sol[i].position.x || a.sol[i].position.y != b.sol[i].position.y ||
        a.sol[i].orientation != b.sol[i].orientation)
      return false;
  return true;
}
std::string firstDiff(const RunOut &a, const RunOut &b) {
  std::ostringstream m;
  if (a.returned != b.returned) {
    m << "one run returned, the other threw (" << a.what << b.what << ")";
    return m.str();
  }
  for (size_t i = 0; i < a.sol.size() && i < b.sol.size(); ++i)
    if (a.sol[i].position.x != b.sol[i].position.x || a.sol[i].position.y != b.sol[i].position.y ||
        a.sol[i].orientation != b.sol[i].orientation) {
      m << "cell " << i << ": (" << a.sol[i].position.x << "," << a.sol[i].position.y << "," << (int)a.sol[i].orientation << ") vs ("
        << b.sol[i].position.x << "," << b.sol[i].position.y << "," << (int)b.sol[i].orientation << ")";
      return m.str();
    }
  return "size";
}
}  // namespace

bool prop(Tape &t, Report &R) {
  coloquinte::verif::solveHook = &hookTrampoline;
  int stage = t.weighted({5, 2, 2});
  GenOpts o;
  o.maxCells = R.thorough() ? 24 : 12;
  o.maxLevels = 6;
  if (stage == kGlobal) {
    o.globalDomain = true;
    o.anchorPct = 100;
    o.overfull = false;
  }
  CircuitSpec s = genCircuit(t, o);
  ParamOpts po;
  po.global = stage == kGlobal;
  po.maxNbSteps = R.thorough() ? 30 : 15;
  ColoquinteParameters params = genParams(t, po, &s.labels);
  if (stage == kGlobal && t.flip(2, 3)) params.global.noise = t.flip() ? 1e-4 : 0.5;  // the RNG is really used
  if (stage == kGlobal && params.global.maxNbSteps < 3) params.global.maxNbSteps = 3 + params.global.nbInitialSteps;
  s.labels.insert(std::string("stage:") + stageName(stage));
  for (auto &l : s.labels) R.classify(l);
  if (s.nbMovable() == 0) {
    R.discard("no movable cell");
    return true;
  }
  if (stage == kGlobal && !unanchoredComponents(s).empty()) {
    R.exclude("c06-unanchored-far-from-origin");
    return true;
  }
  Circuit base = s.build();
  long pairs0 = gSched.pairs, enforced0 = gSched.enforced, firstOk0 = gSched.firstOk, gaveUp0 = gSched.gaveUp;
  gSched.reset(kFree, {});
  RunOut ref = runOnce(base, stage, params, false);

#ifdef VERIF_TSAN
  // under ThreadSanitizer: a few more runs with forced orders; any report aborts the process
  for (int md : {kXThenY, kYThenX, kJitter}) {
    gSched.reset(md, {1, 0, 2});
    RunOut r = runOnce(base, stage, params, true);
    if (!same(ref, r)) return R.fail("result differs under schedule " + std::to_string(md) + ": " + firstDiff(ref, r));
  }
  if (stage == kGlobal && ref.returned) R.nontrivial(s.hash(), [&] { return s.json(10); });
  return true;
#else
  // repeated run, run on a copy
  {
    RunOut r2 = runOnce(base, stage, params, false);
    if (!same(ref, r2)) return R.fail(std::string(stageName(stage)) + " is not repeatable: " + firstDiff(ref, r2) + " " + s.json());
    Circuit copy = base;
    RunOut r3 = runOnce(copy, stage, params, false);
    if (!same(ref, r3)) return R.fail(std::string(stageName(stage)) + " gives another result on a copy: " + firstDiff(ref, r3) + " " + s.json());
  }
  // with an observing callback
  RunOut rcb = runOnce(base, stage, params, true);
  if (!same(ref, rcb)) return R.fail(std::string(stageName(stage)) + " result depends on the presence of a callback: " + firstDiff(ref, rcb) + " " + s.json());
  // A, then B, then A again in the same process
  {
    Tape t2;
    t2.w = {t.next(), t.next(), t.next(), t.next(), 7u, 9u, 11u, 13u, 17u, 19u, 23u, 29u};
    GenOpts o2 = o;
    o2.maxCells = 6;
    CircuitSpec other = genCircuit(t2, o2);
    if (other.nbMovable() > 0 && (stage != kGlobal || unanchoredComponents(other).empty())) {
      ColoquinteParameters p2(3, 5);
      p2.global.maxNbSteps = 6;
      (void)runOnce(other.build(), stage, p2, false);
    }
    RunOut again = runOnce(base, stage, params, false);
    if (!same(ref, again)) return R.fail(std::string(stageName(stage)) + " result depends on what ran before in the process: " + firstDiff(ref, again) + " " + s.json());
  }
  bool threads = false;
  if (stage == kGlobal) {
    // completion orders of the two asynchronous solves
    std::vector<int> jit;
    for (int k = 0; k < 8; ++k) jit.push_back(t.choose(0, 3));
    for (int md : {kXThenY, kYThenX, kJitter}) {
      gSched.reset(md, jit);
      long before = gSched.pairs;
      RunOut r = runOnce(base, stage, params, false);
      if (gSched.pairs - before >= 2) threads = true;
      if (!same(ref, r)) {
        static const char *nm[] = {"free", "x-then-y", "y-then-x", "jitter"};
        return R.fail(std::string("placeGlobal result depends on the completion order of the parallel solves (") + nm[md] + "): " + firstDiff(ref, r) + " " + s.json());
      }
    }
    gSched.reset(kFree, {});
  }
  // one CPU vs all CPUs
  {
    cpu_set_t all, one;
    if (sched_getaffinity(0, sizeof all, &all) == 0) {
      CPU_ZERO(&one);
      for (int cpu = 0; cpu < CPU_SETSIZE; ++cpu)
        if (CPU_ISSET(cpu, &all)) {
          CPU_SET(cpu, &one);
          break;
        }
      sched_setaffinity(0, sizeof one, &one);
      RunOut r1 = runOnce(base, stage, params, false);
      sched_setaffinity(0, sizeof all, &all);
      if (!same(ref, r1)) return R.fail(std::string(stageName(stage)) + " result differs when the process is pinned to one CPU: " + firstDiff(ref, r1) + " " + s.json());
    }
  }
  R.classify("hooked-solve-pairs-under-a-forced-schedule", gSched.pairs - pairs0);
  R.classify("pairs-with-forced-order", gSched.enforced - enforced0);
  R.classify("pairs-where-the-requested-solve-finished-first", gSched.firstOk - firstOk0);
  if (gSched.gaveUp - gaveUp0) R.classify("schedule-wait-gave-up", gSched.gaveUp - gaveUp0);
  bool moved = false;
  for (size_t i = 0; i < ref.sol.size(); ++i)
    if (!base.isFixed(i) && (ref.sol[i].position.x != base.x(i) || ref.sol[i].position.y != base.y(i))) moved = true;
  bool nt = stage == kGlobal ? (threads && rcb.lbSteps >= 3 && params.global.noise > 0) : (ref.returned && moved);
  if (nt) R.nontrivial(s.hash() ^ Hasher().add(stage).h, [&] { return s.json(10); });
  return true;
#endif
}

bool exhaustive(Report &, int, int, Tape &) { return true; }
}  // namespace verif
