// Independent optimum oracles for transportation problems:
// LEMON NetworkSimplex<long long> and brute force over all plans.
#pragma once
#include <lemon/network_simplex.h>
#include <lemon/smart_graph.h>

#include <algorithm>
#include <functional>
#include <string>
#include <vector>

namespace verif {
typedef long long ll;
typedef __int128 i128;

inline std::string i128s(i128 v) {
  bool neg = v < 0;
  if (neg) v = -v;
  std::string s;
  do {
    s += char('0' + (int)(v % 10));
    v /= 10;
  } while (v > 0);
  if (neg) s += '-';
  std::reverse(s.begin(), s.end());
  return s;
}

/// Optimum by LEMON network simplex; dummy source absorbs the slack.
template <class C>
inline i128 lemonOpt(const std::vector<ll> &cap, const std::vector<ll> &dem,
              const std::vector<std::vector<C>> &cost) {
  using namespace lemon;
  SmartDigraph g;
  int ns = cap.size(), nd = dem.size();
  std::vector<SmartDigraph::Node> snk(ns), src(nd + 1);
  for (int i = 0; i < ns; ++i) snk[i] = g.addNode();
  for (int j = 0; j <= nd; ++j) src[j] = g.addNode();
  SmartDigraph::ArcMap<ll> c(g);
  SmartDigraph::NodeMap<ll> sup(g);
  ll totD = 0, totC = 0;
  for (ll d : dem) totD += d;
  for (ll x : cap) totC += x;
  for (int i = 0; i < ns; ++i) sup[snk[i]] = -cap[i];
  for (int j = 0; j < nd; ++j) sup[src[j]] = dem[j];
  sup[src[nd]] = totC - totD;
  for (int i = 0; i < ns; ++i) {
    for (int j = 0; j < nd; ++j) {
      auto a = g.addArc(src[j], snk[i]);
      c[a] = cost[i][j];
    }
    auto a = g.addArc(src[nd], snk[i]);
    c[a] = 0;
  }
  NetworkSimplex<SmartDigraph, ll, ll> ns_(g);
  ns_.costMap(c).supplyMap(sup);
  auto st = ns_.run();
  if (st != NetworkSimplex<SmartDigraph, ll, ll>::OPTIMAL) std::abort();  // harness bug
  // total cost in 128 bits from the flow
  i128 tot = 0;
  for (SmartDigraph::ArcIt a(g); a != INVALID; ++a)
    tot += (i128)ns_.flow(a) * c[a];
  return tot;
}

/// Brute force over all plans (tiny instances only).
template <class C>
inline i128 bruteOpt(const std::vector<ll> &cap, const std::vector<ll> &dem,
              const std::vector<std::vector<C>> &cost) {
  int ns = cap.size(), nd = dem.size();
  std::vector<ll> rem = cap;
  i128 best = -1;
  std::function<void(int, i128)> rec = [&](int j, i128 acc) {
    if (best >= 0 && acc >= best) {
      // costs may be negative in general, but not in the tiny enumeration
    }
    if (j == nd) {
      if (best < 0 || acc < best) best = acc;
      return;
    }
    // distribute dem[j] over sinks
    std::function<void(int, ll, i128)> split = [&](int i, ll left, i128 a2) {
      if (i == ns - 1) {
        if (left > rem[i]) return;
        rem[i] -= left;
        rec(j + 1, a2 + (i128)left * cost[i][j]);
        rem[i] += left;
        return;
      }
      for (ll q = 0; q <= left && q <= rem[i]; ++q) {
        rem[i] -= q;
        split(i + 1, left - q, a2 + (i128)q * cost[i][j]);
        rem[i] += q;
      }
    };
    split(0, dem[j], acc);
  };
  rec(0, 0);
  return best;
}

}  // namespace verif
