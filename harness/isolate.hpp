// Run a piece of a property in a forked child, so that a case belonging to a
// recorded known finding (which ends in a sanitizer abort on the unchanged
// tree) cannot kill the worker, while a tree on which the case *survives* is
// still judged.  0 = held, 1 = property failed (reason filled), 2 = the child
// died (signal, sanitizer abort, timeout).
#pragma once
#include <signal.h>
#include <sys/wait.h>
#include <unistd.h>

#include <functional>
#include <string>

namespace verif {
inline int runIsolated(const std::function<bool(std::string &)> &f, std::string &reason, unsigned timeoutSec = 60) {
  int fd[2];
  if (pipe(fd) != 0) return 2;
  fflush(nullptr);
  pid_t pid = fork();
  if (pid < 0) {
    close(fd[0]), close(fd[1]);
    return 2;
  }
  if (pid == 0) {
    close(fd[0]);
    // sanitizer reports of the expected abort would flood the worker's log
    int devnull = open("/dev/null", 1);
    if (devnull >= 0) dup2(devnull, 2);
    alarm(timeoutSec);
    std::string why;
    bool ok = f(why);
    if (!ok) {
      size_t n = why.size();
      (void)!write(fd[1], why.data(), n > 60000 ? 60000 : n);
    }
    close(fd[1]);
    _exit(ok ? 0 : 3);
  }
  close(fd[1]);
  std::string got;
  char buf[4096];
  ssize_t n;
  while ((n = read(fd[0], buf, sizeof buf)) > 0) got.append(buf, (size_t)n);
  close(fd[0]);
  int status = 0;
  waitpid(pid, &status, 0);
  if (WIFEXITED(status) && WEXITSTATUS(status) == 0) return 0;
  if (WIFEXITED(status) && WEXITSTATUS(status) == 3) {
    reason = got;
    return 1;
  }
  return 2;
}
}  // namespace verif
