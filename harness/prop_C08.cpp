// C08 — placement is deterministic and independent of thread scheduling.
// The harness owns the completion order of the two concurrent solves of every
// lower-bound step through the COLOQUINTE_VERIF hook in
// NetModel::solveWithPenalty.  The `tsan` build of this same file runs the
// global placer under ThreadSanitizer.
#include <sched.h>
#include <sys/wait.h>
#include <unistd.h>

#include <chrono>
#include <condition_variable>
#include <mutex>
#include <thread>

#include "gen_circuit.hpp"
#include "place_global/net_model.hpp"
#include "stages.hpp"

#if defined(__has_feature)
#if __has_feature(thread_sanitizer)
#define VERIF_TSAN 1
#endif
#endif

using namespace coloquinte;

namespace verif {
const char *propId() { return "C08"; }

namespace {
// ---------------------------------------------------------------- scheduler
enum Schedule { kFree = 0, kXThenY = 1, kYThenX = 2, kJitter = 3 };
struct Sched {
  std::mutex m;
  std::condition_variable cv;
  int mode = kFree;
  std::vector<const void *> entered;  // of the current pair
  std::vector<const void *> exited;
  std::vector<int> jitterMs;          // consumed round-robin
  size_t jitterPos = 0;
  long pairs = 0, enforced = 0, firstOk = 0, gaveUp = 0, solves = 0;
  std::vector<const void *> exitOrder;

  void reset(int md, std::vector<int> jit) {
    std::lock_guard<std::mutex> l(m);
    mode = md;
    entered.clear();
    exited.clear();
    jitterMs = std::move(jit);
    jitterPos = 0;
  }
  int nextJitter() {
    if (jitterMs.empty()) return 0;
    return jitterMs[(jitterPos++) % jitterMs.size()];
  }
  bool has(const std::vector<const void *> &v, const void *p) {
    for (auto q : v)
      if (q == p) return true;
    return false;
  }
  void hook(const void *model, int phase) {
    std::unique_lock<std::mutex> l(m);
    if (phase == 0) {
      ++solves;
      if (mode == kFree) return;
      entered.push_back(model);
      cv.notify_all();
      // two-party barrier: both solves of the pair have started
      bool both = cv.wait_for(l, std::chrono::seconds(5), [&] { return entered.size() >= 2; });
      if (!both) {
        ++gaveUp;
        return;
      }
      const void *lo = std::min(entered[0], entered[1]), *hi = std::max(entered[0], entered[1]);
      if (mode == kJitter) {
        int ms = nextJitter();
        l.unlock();
        if (ms) std::this_thread::sleep_for(std::chrono::milliseconds(ms));
        return;
      }
      // xtopo_ is declared before ytopo_ in GlobalPlacer: the lower address is the x model
      const void *mustFinishFirst = mode == kXThenY ? lo : hi;
      if (model != mustFinishFirst) {
        bool ok = cv.wait_for(l, std::chrono::seconds(20), [&] { return has(exited, mustFinishFirst); });
        if (!ok) ++gaveUp;
      }
    } else {
      if (mode == kFree) return;
      if (mode == kJitter) {
        int ms = nextJitter();
        l.unlock();
        if (ms) std::this_thread::sleep_for(std::chrono::milliseconds(ms));
        l.lock();
      }
      exited.push_back(model);
      if (exited.size() == 1 && entered.size() >= 2 && mode != kJitter) {
        ++enforced;
        const void *lo = std::min(entered[0], entered[1]), *hi = std::max(entered[0], entered[1]);
        if (model == (mode == kXThenY ? lo : hi)) ++firstOk;
      }
      cv.notify_all();
      if (exited.size() >= 2) {
        ++pairs;
        entered.clear();
        exited.clear();
      }
    }
  }
};
Sched gSched;
void hookTrampoline(const void *model, int phase) { gSched.hook(model, phase); }

struct RunOut {
  PlacementSolution sol;
  bool returned = false;
  std::string what;
  int lbSteps = 0;
};

RunOut runOnce(Circuit c, int stage, const ColoquinteParameters &p, bool withCallback) {
  RunOut out;
  int lb = 0;
  PlacementCallback cb = [&](PlacementStep st) {
    if (st == PlacementStep::LowerBound) ++lb;
  };
  StageResult r = withCallback ? runStage(c, stage, p, cb) : runStage(c, stage, p);
  out.returned = r.returned;
  out.what = r.what;
  out.sol = c.solution();
  out.lbSteps = lb;
  return out;
}

bool same(const RunOut &a, const RunOut &b) {
  if (a.returned != b.returned || a.sol.size() != b.sol.size()) return false;
  for (size_t i = 0; i < a.sol.size(); ++i)
    if (a.sol[i].position.x != b.sol[i].position.x || a.sol[i].position.y != b.sol[i].position.y ||
        a.sol[i].orientation != b.sol[i].orientation)
      return false;
  return true;
}
std::string firstDiff(const RunOut &a, const RunOut &b) {
  std::ostringstream m;
  if (a.returned != b.returned) {
    m << "one run returned, the other threw (" << a.what << b.what << ")";
    return m.str();
  }
  for (size_t i = 0; i < a.sol.size() && i < b.sol.size(); ++i)
    if (a.sol[i].position.x != b.sol[i].position.x || a.sol[i].position.y != b.sol[i].position.y ||
        a.sol[i].orientation != b.sol[i].orientation) {
      m << "cell " << i << ": (" << a.sol[i].position.x << "," << a.sol[i].position.y << "," << (int)a.sol[i].orientation << ") vs ("
        << b.sol[i].position.x << "," << b.sol[i].position.y << "," << (int)b.sol[i].orientation << ")";
      return m.str();
    }
  return "size";
}

struct Case {
  int stage = 0;
  GenOpts o;
  CircuitSpec s;
  ColoquinteParameters params{3, 0};
};

/// Decode the case (shared by the worker and by the fresh-process helper).
void decodeCase(Tape &t, bool thorough, Case &k) {
  int stage = t.weighted({5, 2, 2});
  GenOpts o;
  o.maxCells = thorough ? 24 : 12;
  o.maxLevels = 6;
  if (stage == kGlobal) {
    o.globalDomain = true;
    o.anchorPct = 70;
    o.overfull = false;
  }
  CircuitSpec s = genCircuit(t, o);
  ParamOpts po;
  po.global = stage == kGlobal;
  po.maxNbSteps = thorough ? 30 : 15;
  ColoquinteParameters params = genParams(t, po, &s.labels);
  if (stage == kGlobal && t.flip(2, 3)) params.global.noise = t.flip() ? 1e-4 : 0.5;  // the RNG is really used
  if (stage == kGlobal && params.global.maxNbSteps < 3) params.global.maxNbSteps = 3 + params.global.nbInitialSteps;
  k.stage = stage;
  k.o = o;
  k.s = s;
  k.params = params;
}

// ---------------------------------------------------------------- fresh process
// A helper process forked before this process has run any placement; for every
// request it forks a grandchild that has therefore never executed library code,
// runs the reference placement of the case there and returns the solution.
struct Zygote {
  int wfd = -1, rfd = -1;
  bool tried = false;
} gZ;

bool readAll(int fd, void *buf, size_t n) {
  char *p = (char *)buf;
  while (n > 0) {
    ssize_t r = read(fd, p, n);
    if (r <= 0) return false;
    p += r, n -= (size_t)r;
  }
  return true;
}
bool writeAll(int fd, const void *buf, size_t n) {
  const char *p = (const char *)buf;
  while (n > 0) {
    ssize_t r = write(fd, p, n);
    if (r <= 0) return false;
    p += r, n -= (size_t)r;
  }
  return true;
}

void zygoteLoop(int rfd, int wfd) {
  for (;;) {
    uint32_t hdr[2];
    if (!readAll(rfd, hdr, sizeof hdr)) _exit(0);
    std::vector<uint32_t> words(hdr[1]);
    if (hdr[1] && !readAll(rfd, words.data(), hdr[1] * 4)) _exit(0);
    int pfd[2];
    if (pipe(pfd) != 0) _exit(0);
    pid_t pid = fork();
    if (pid == 0) {
      close(pfd[0]);
      alarm(120);
      Tape t(words);
      Case k;
      decodeCase(t, hdr[0] != 0, k);
      gSched.reset(kFree, {});
      RunOut r = runOnce(k.s.build(), k.stage, k.params, false);
      std::vector<int32_t> out;
      out.push_back(r.returned ? 1 : 0);
      out.push_back((int32_t)r.sol.size());
      for (auto &c : r.sol) out.push_back(c.position.x), out.push_back(c.position.y), out.push_back((int32_t)c.orientation);
      writeAll(pfd[1], out.data(), out.size() * 4);
      _exit(0);
    }
    close(pfd[1]);
    std::vector<int32_t> got;
    int32_t v;
    while (readAll(pfd[0], &v, 4)) got.push_back(v);
    close(pfd[0]);
    int st;
    waitpid(pid, &st, 0);
    int32_t n = (int32_t)got.size();
    if (n < 2 || (int32_t)got.size() != 2 + 3 * got[1]) n = -1;
    writeAll(wfd, &n, 4);
    if (n > 0) writeAll(wfd, got.data(), (size_t)n * 4);
  }
}

void ensureZygote() {
  if (gZ.tried) return;
  gZ.tried = true;
  int a[2], b[2];
  if (pipe(a) != 0 || pipe(b) != 0) return;
  fflush(nullptr);
  pid_t pid = fork();
  if (pid < 0) return;
  if (pid == 0) {
    close(a[1]), close(b[0]);
    zygoteLoop(a[0], b[1]);
    _exit(0);
  }
  close(a[0]), close(b[1]);
  gZ.wfd = a[1];
  gZ.rfd = b[0];
}

/// Reference run of the case in a process that has never run a placement.
bool freshProcessRun(const Tape &t, bool thorough, RunOut &out) {
  if (gZ.wfd < 0) return false;
  uint32_t hdr[2] = {thorough ? 1u : 0u, (uint32_t)t.w.size()};
  if (!writeAll(gZ.wfd, hdr, sizeof hdr)) return false;
  if (!t.w.empty() && !writeAll(gZ.wfd, t.w.data(), t.w.size() * 4)) return false;
  int32_t n;
  if (!readAll(gZ.rfd, &n, 4) || n < 2) return false;
  std::vector<int32_t> got(n);
  if (!readAll(gZ.rfd, got.data(), (size_t)n * 4)) return false;
  out.returned = got[0] != 0;
  out.sol.clear();
  for (int i = 0; i < got[1]; ++i) out.sol.emplace_back(got[2 + 3 * i], got[3 + 3 * i], (CellOrientation)got[4 + 3 * i]);
  return true;
}
}  // namespace

bool prop(Tape &t, Report &R) {
#ifndef VERIF_TSAN
  ensureZygote();  // before this process runs any placement
#endif
  coloquinte::verif::solveHook = &hookTrampoline;
  Case kase;
  decodeCase(t, R.thorough(), kase);
  int stage = kase.stage;
  GenOpts o = kase.o;
  CircuitSpec s = kase.s;
  ColoquinteParameters params = kase.params;
#if 0
  int stage = t.weighted({5, 2, 2});
  GenOpts o;
  o.maxCells = R.thorough() ? 24 : 12;
  o.maxLevels = 6;
  if (stage == kGlobal) {
    o.globalDomain = true;
    o.anchorPct = 70;
    o.overfull = false;
  }
  CircuitSpec s = genCircuit(t, o);
  ParamOpts po;
  po.global = stage == kGlobal;
  po.maxNbSteps = R.thorough() ? 30 : 15;
  ColoquinteParameters params = genParams(t, po, &s.labels);
  if (stage == kGlobal && t.flip(2, 3)) params.global.noise = t.flip() ? 1e-4 : 0.5;  // the RNG is really used
  if (stage == kGlobal && params.global.maxNbSteps < 3) params.global.maxNbSteps = 3 + params.global.nbInitialSteps;
#endif
  s.labels.insert(std::string("stage:") + stageName(stage));
  for (auto &l : s.labels) R.classify(l);
  if (s.nbMovable() == 0) {
    R.discard("no movable cell");
    return true;
  }
  if (stage == kGlobal && !unanchoredComponents(s).empty()) {
    // only the class of the recorded finding is left out (as in C07): a component without a fixed
    // pin AND an area more than ~1000 average cell lengths from the origin.  Cells on no net close
    // to the origin are ordinary inputs (spare cells, fillers).
    long long far = 0;
    for (auto &r : s.rows) far = std::max<long long>({far, std::llabs((long long)r.minX), std::llabs((long long)r.maxX), std::llabs((long long)r.minY), std::llabs((long long)r.maxY)});
    double tot = 0;
    for (auto &c : s.cells)
      if (!c.fixed) tot += (double)c.w * c.h;
    double avg = std::sqrt(tot / std::max<size_t>(1, s.cells.size()));
    if (avg <= 0 || far / avg > 1e3) {
      R.exclude("c06-unanchored-far-from-origin");
      return true;
    }
    R.classify("component:unanchored-near-origin");
  }
  Circuit base = s.build();
  long pairs0 = gSched.pairs, enforced0 = gSched.enforced, firstOk0 = gSched.firstOk, gaveUp0 = gSched.gaveUp;
  gSched.reset(kFree, {});
#ifndef VERIF_TSAN
  // history prefix: an unrelated placement (its own noise, seed, effort) runs
  // in this process BEFORE the reference run, so that state leaking from one
  // run into the next shows up against the fresh-process result below and is
  // reproducible from this single tape
  {
    uint32_t hw = t.next();
    if (hw & 1u) {
      Tape t2;
      t2.w = {hw >> 1, hw * 2654435761u, hw ^ 0x9e3779b9u, 7u, 9u, 11u, 13u, 17u, 19u, 23u, 29u, 31u};
      GenOpts o2 = o;
      o2.maxCells = 6;
      CircuitSpec other = genCircuit(t2, o2);
      if (other.nbMovable() > 0 && (stage != kGlobal || unanchoredComponents(other).empty())) {
        ColoquinteParameters p2(1 + (int)((hw >> 3) % 9), (int)((hw >> 8) % 100));
        static const double nz[] = {1e-4, 0.5, 0.02, 1.5};
        p2.global.noise = nz[(hw >> 16) % 4];
        p2.global.maxNbSteps = 6;
        (void)runOnce(other.build(), stage, p2, false);
        R.classify("history:unrelated-run-first");
      }
    }
  }
#endif
  RunOut ref = runOnce(base, stage, params, false);

#ifdef VERIF_TSAN
  // under ThreadSanitizer: a few more runs with forced orders; any report aborts the process
  for (int md : {kXThenY, kYThenX, kJitter}) {
    gSched.reset(md, {1, 0, 2});
    RunOut r = runOnce(base, stage, params, true);
    if (!same(ref, r)) return R.fail("result differs under schedule " + std::to_string(md) + ": " + firstDiff(ref, r));
  }
  if (stage == kGlobal && ref.returned) R.nontrivial(s.hash(), [&] { return s.json(10); });
  return true;
#else
  // repeated run, run on a copy
  {
    RunOut r2 = runOnce(base, stage, params, false);
    if (!same(ref, r2)) return R.fail(std::string(stageName(stage)) + " is not repeatable: " + firstDiff(ref, r2) + " " + s.json());
    Circuit copy = base;
    RunOut r3 = runOnce(copy, stage, params, false);
    if (!same(ref, r3)) return R.fail(std::string(stageName(stage)) + " gives another result on a copy: " + firstDiff(ref, r3) + " " + s.json());
  }
  // the same run in a process that has never executed a placement before
  {
    RunOut fresh;
    Tape whole;
    whole.w = t.w;
    if (freshProcessRun(whole, R.thorough(), fresh)) {
      R.classify("compared-with-a-fresh-process");
      if (!same(ref, fresh))
        return R.fail(std::string(stageName(stage)) + " result in this process (after other runs) differs from the result in a fresh process: " + firstDiff(ref, fresh) + " " + s.json());
    } else {
      R.classify("fresh-process-helper-unavailable");
    }
  }
  // with an observing callback
  RunOut rcb = runOnce(base, stage, params, true);
  if (!same(ref, rcb)) return R.fail(std::string(stageName(stage)) + " result depends on the presence of a callback: " + firstDiff(ref, rcb) + " " + s.json());
  // A, then B, then A again in the same process
  {
    Tape t2;
    t2.w = {t.next(), t.next(), t.next(), t.next(), 7u, 9u, 11u, 13u, 17u, 19u, 23u, 29u};
    GenOpts o2 = o;
    o2.maxCells = 6;
    CircuitSpec other = genCircuit(t2, o2);
    if (other.nbMovable() > 0 && (stage != kGlobal || unanchoredComponents(other).empty())) {
      ColoquinteParameters p2(3, 5);
      p2.global.maxNbSteps = 6;
      (void)runOnce(other.build(), stage, p2, false);
    }
    RunOut again = runOnce(base, stage, params, false);
    if (!same(ref, again)) return R.fail(std::string(stageName(stage)) + " result depends on what ran before in the process: " + firstDiff(ref, again) + " " + s.json());
  }
  bool threads = false;
  if (stage == kGlobal) {
    // completion orders of the two asynchronous solves
    std::vector<int> jit;
    for (int k = 0; k < 8; ++k) jit.push_back(t.choose(0, 3));
    for (int md : {kXThenY, kYThenX, kJitter}) {
      gSched.reset(md, jit);
      long before = gSched.pairs;
      RunOut r = runOnce(base, stage, params, false);
      if (gSched.pairs - before >= 2) threads = true;
      if (!same(ref, r)) {
        static const char *nm[] = {"free", "x-then-y", "y-then-x", "jitter"};
        return R.fail(std::string("placeGlobal result depends on the completion order of the parallel solves (") + nm[md] + "): " + firstDiff(ref, r) + " " + s.json());
      }
    }
    gSched.reset(kFree, {});
  }
  // object history: the same Circuit object is placed, then brought through the public setters to
  // the contents of a variant of the case (fixed cells moved / re-oriented, start positions reset),
  // and placed again: the result must equal that of a freshly built circuit with those contents
  if (t.flip(1, 2)) {
    CircuitSpec s2 = s;
    bool movedFixed = false;
    for (auto &c2 : s2.cells)
      if (c2.fixed) {
        c2.x += (int)t.range(-2 * s.rowHeight, 2 * s.rowHeight);
        c2.y += (int)t.range(-2, 2) * s.rowHeight;
        movedFixed = true;
      }
    if (stage != kGlobal || unanchoredComponents(s2).empty()) {
      Circuit fresh = s2.build();
      RunOut rf = runOnce(fresh, stage, params, false);
      Circuit hist = s.build();
      (void)runStage(hist, stage, params);
      std::vector<int> xs, ys;
      std::vector<CellOrientation> os;
      for (auto &c2 : s2.cells) xs.push_back(c2.x), ys.push_back(c2.y), os.push_back((CellOrientation)c2.orient);
      hist.setCellX(xs);
      hist.setCellY(ys);
      hist.setCellOrientation(os);
      RunOut rh = runOnce(hist, stage, params, false);
      R.classify(movedFixed ? "object-history:fixed-cells-moved-between-runs" : "object-history:no-fixed-cell");
      if (!same(rf, rh))
        return R.fail(std::string(stageName(stage)) + " on a circuit object that was placed before and then modified through its setters differs from the same contents built fresh: " + firstDiff(rf, rh) + " " + s2.json());
    }
  }
  // one CPU vs all CPUs
  {
    cpu_set_t all, one;
    if (sched_getaffinity(0, sizeof all, &all) == 0) {
      CPU_ZERO(&one);
      for (int cpu = 0; cpu < CPU_SETSIZE; ++cpu)
        if (CPU_ISSET(cpu, &all)) {
          CPU_SET(cpu, &one);
          break;
        }
      sched_setaffinity(0, sizeof one, &one);
      RunOut r1 = runOnce(base, stage, params, false);
      sched_setaffinity(0, sizeof all, &all);
      if (!same(ref, r1)) return R.fail(std::string(stageName(stage)) + " result differs when the process is pinned to one CPU: " + firstDiff(ref, r1) + " " + s.json());
    }
  }
  R.classify("hooked-solve-pairs-under-a-forced-schedule", gSched.pairs - pairs0);
  R.classify("pairs-with-forced-order", gSched.enforced - enforced0);
  R.classify("pairs-where-the-requested-solve-finished-first", gSched.firstOk - firstOk0);
  if (gSched.gaveUp - gaveUp0) R.classify("schedule-wait-gave-up", gSched.gaveUp - gaveUp0);
  bool moved = false;
  for (size_t i = 0; i < ref.sol.size(); ++i)
    if (!base.isFixed(i) && (ref.sol[i].position.x != base.x(i) || ref.sol[i].position.y != base.y(i))) moved = true;
  bool nt = stage == kGlobal ? (threads && rcb.lbSteps >= 3 && params.global.noise > 0) : (ref.returned && moved);
  if (nt) R.nontrivial(s.hash() ^ Hasher().add(stage).h, [&] { return s.json(10); });
  return true;
#endif
}

bool exhaustive(Report &, int, int, Tape &) { return true; }
}  // namespace verif
