// C09 — wirelength is geometrically exact and incrementally consistent.
// Oracle: DEF orientations as 2x2 integer matrices applied to outline and pin
// (oracles.hpp), and a from-scratch one-axis HPWL for the incremental model.
#include <sstream>

#include "evidence.hpp"
#include "oracles.hpp"
#include "place_detailed/incr_net_model.hpp"
#include "place_detailed/place_detailed.hpp"

using namespace coloquinte;

namespace verif {
const char *propId() { return "C09"; }

namespace {
constexpr uint32_t kExplicit = 0xE7E7E7E7u;

/// One-axis reference HPWL with model positions for the cells of the subset.
long long refAxis(const Circuit &c, bool xAxis, const std::vector<int> &subset,
                  const std::vector<int> &modelPos) {
  std::vector<int> idx(c.nbCells(), -1);
  for (size_t i = 0; i < subset.size(); ++i) idx[subset[i]] = (int)i;
  long long tot = 0;
  for (int n = 0; n < c.nbNets(); ++n) {
    int b = c.netLimits_[n], e = c.netLimits_[n + 1];
    if (b >= e) continue;
    long long lo = LLONG_MAX, hi = LLONG_MIN;
    for (int k = b; k < e; ++k) {
      int cell = c.pinCells_[k];
      long long pw, ph, ox, oy;
      refTransform(c.cellOrientation_[cell], c.cellWidth_[cell], c.cellHeight_[cell],
                   c.pinXOffsets_[k], c.pinYOffsets_[k], pw, ph, ox, oy);
      long long base = idx[cell] >= 0 ? modelPos[idx[cell]]
                                      : (xAxis ? c.cellX_[cell] : c.cellY_[cell]);
      long long p = base + (xAxis ? ox : oy);
      lo = std::min(lo, p);
      hi = std::max(hi, p);
    }
    tot += hi - lo;
  }
  return tot;
}

std::string checkGetters(const Circuit &c) {
  std::ostringstream s;
  for (int i = 0; i < c.nbCells(); ++i) {
    long long pw, ph, ox, oy;
    refTransform(c.cellOrientation_[i], c.cellWidth_[i], c.cellHeight_[i], 0, 0, pw, ph, ox, oy);
    if (c.placedWidth(i) != pw || c.placedHeight(i) != ph) {
      s << "placed size of cell " << i << " (" << c.cellWidth_[i] << "x" << c.cellHeight_[i]
        << " orientation " << (int)c.cellOrientation_[i] << ") is " << c.placedWidth(i) << "x"
        << c.placedHeight(i) << ", reference " << pw << "x" << ph;
      return s.str();
    }
    if (isTurn(c.cellOrientation_[i]) != refIsTurn(c.cellOrientation_[i]))
      return "isTurn disagrees with the rotation matrix";
  }
  for (int n = 0; n < c.nbNets(); ++n)
    for (int k = 0; k < c.nbPinsNet(n); ++k) {
      int cell = c.pinCell(n, k);
      int raw = c.netLimits_[n] + k;
      long long pw, ph, ox, oy;
      refTransform(c.cellOrientation_[cell], c.cellWidth_[cell], c.cellHeight_[cell],
                   c.pinXOffsets_[raw], c.pinYOffsets_[raw], pw, ph, ox, oy);
      if (c.pinXOffset(n, k) != ox || c.pinYOffset(n, k) != oy) {
        s << "pin offset net " << n << " pin " << k << " on a " << c.cellWidth_[cell] << "x"
          << c.cellHeight_[cell] << " cell, orientation " << (int)c.cellOrientation_[cell]
          << ", raw offset (" << c.pinXOffsets_[raw] << "," << c.pinYOffsets_[raw] << "): got ("
          << c.pinXOffset(n, k) << "," << c.pinYOffset(n, k) << "), reference (" << ox << "," << oy << ")";
        return s.str();
      }
    }
  long long ref = refHpwl(c);
  if (c.hpwl() != ref) {
    s << "hpwl()=" << c.hpwl() << " reference=" << ref;
    return s.str();
  }
  return "";
}
}  // namespace

bool prop(Tape &t, Report &R) {
  if (!t.w.empty() && t.w[0] == kExplicit) {
    // explicit: one cell w x h, orientation, pin (px,py), partner pin at a fixed cell
    t.next();
    int w = (int)(t.next() % 64), h = (int)(t.next() % 64), o = (int)(t.next() % 8);
    int px = (int)(int32_t)t.next(), py = (int)(int32_t)t.next();
    px = std::max(-100, std::min(px, 100));
    py = std::max(-100, std::min(py, 100));
    Circuit c(2);
    c.setCellWidth({w, 0});
    c.setCellHeight({h, 0});
    c.setCellX({7, 0});
    c.setCellY({-3, 0});
    c.setCellOrientation({(CellOrientation)o, CellOrientation::N});
    c.setCellIsFixed({false, true});
    c.addNet({0, 1}, {px, 0}, {py, 0});
    std::string e = checkGetters(c);
    if (!e.empty()) return R.fail(e);
    return true;
  }
  int scale = t.weighted({5, 2, 2});
  long long C = scale == 0 ? 30 : scale == 1 ? 5000 : (1LL << 22);
  int maxSize = scale == 0 ? 6 : scale == 1 ? 200 : 40000;
  int n = t.choose(1, 12);
  Circuit c(n);
  std::vector<int> w(n), h(n), x(n), y(n);
  std::vector<bool> fx(n);
  std::vector<CellOrientation> ori(n);
  bool rotated = false;
  for (int i = 0; i < n; ++i) {
    w[i] = (int)t.range(0, maxSize);
    h[i] = (int)t.range(0, maxSize);
    x[i] = (int)t.range(-C, C);
    y[i] = (int)t.range(-C, C);
    ori[i] = (CellOrientation)t.choose(0, 7);
    fx[i] = t.flip(1, 4);
  }
  c.setCellWidth(w);
  c.setCellHeight(h);
  c.setCellX(x);
  c.setCellY(y);
  c.setCellOrientation(ori);
  c.setCellIsFixed(fx);
  // nets
  int nn = t.choose(0, 12);
  bool viaSet = t.flip();
  std::vector<int> lim = {0}, pc, pxo, pyo;
  std::vector<float> wt;
  bool ntNet = false;
  for (int k = 0; k < nn; ++k) {
    int deg = t.weighted({1, 2, 4, 3, 2, 1});  // 0..5
    if (deg == 5) deg = t.choose(5, 9);
    std::vector<int> cs, xo, yo;
    bool touchesRot = false;
    for (int q = 0; q < deg; ++q) {
      int cell = t.choose(0, n - 1);
      int ocl = t.weighted({4, 2, 2});  // inside / on border / outside the outline
      int ox, oy;
      if (ocl == 0) {
        ox = (int)t.range(0, w[cell]);
        oy = (int)t.range(0, h[cell]);
      } else if (ocl == 1) {
        ox = t.flip() ? 0 : w[cell];
        oy = t.flip() ? 0 : h[cell];
      } else {
        ox = (int)t.range(-maxSize, 2LL * maxSize);
        oy = (int)t.range(-maxSize, 2LL * maxSize);
      }
      cs.push_back(cell);
      xo.push_back(ox);
      yo.push_back(oy);
      if (ori[cell] != CellOrientation::N) touchesRot = true;
    }
    if (deg >= 2 && touchesRot) ntNet = true;
    if (viaSet) {
      pc.insert(pc.end(), cs.begin(), cs.end());
      pxo.insert(pxo.end(), xo.begin(), xo.end());
      pyo.insert(pyo.end(), yo.begin(), yo.end());
      lim.push_back((int)pc.size());
      wt.push_back(1.0f + (t.next() % 4));
    } else {
      c.addNet(cs, xo, yo, 1.0f + (t.next() % 4));
    }
  }
  // many far-reaching nets: the total wirelength leaves the 32-bit range although every
  // coordinate and every single net span is far inside it (bulk derived from one word)
  if (scale == 2 && n >= 2 && t.flip(1, 4)) {
    uint32_t word = t.next();
    int cnt = 600 + (int)(word % 1200);
    Tape big = expandTape(word, 8 * (size_t)cnt);
    for (int k = 0; k < cnt; ++k) {
      int deg = 2 + (int)(big.next() % 2);
      std::vector<int> cs, xo, yo;
      for (int q = 0; q < deg; ++q) {
        int cell = (int)(big.next() % (uint32_t)n);
        cs.push_back(cell);
        xo.push_back((int)(big.next() % (uint32_t)(w[cell] + 1)));
        yo.push_back((int)(big.next() % (uint32_t)(h[cell] + 1)));
      }
      if (viaSet) {
        pc.insert(pc.end(), cs.begin(), cs.end());
        pxo.insert(pxo.end(), xo.begin(), xo.end());
        pyo.insert(pyo.end(), yo.begin(), yo.end());
        lim.push_back((int)pc.size());
        wt.push_back(1.0f);
      } else {
        c.addNet(cs, xo, yo, 1.0f);
      }
    }
    R.classify("nets:many(600+)");
  }
  if (viaSet) c.setNets(lim, pc, pxo, pyo, wt);
  R.classify(viaSet ? "nets:setNets(with empty nets)" : "nets:addNet");
  R.classify(scale == 0 ? "scale:small" : scale == 1 ? "scale:medium" : "scale:2^22");
  (void)rotated;

  std::string e = checkGetters(c);
  if (!e.empty()) return R.fail(e);

  // incremental models: all cells, or a tape-chosen subset
  std::vector<int> subset;
  bool all = t.flip();
  if (all) {
    for (int i = 0; i < n; ++i) subset.push_back(i);
  } else {
    for (int i = 0; i < n; ++i)
      if (t.flip()) subset.push_back(i);
    // tape-chosen order of the subset
    for (size_t i = 0; i + 1 < subset.size(); ++i)
      std::swap(subset[i], subset[t.choose((int)i, (int)subset.size() - 1)]);
  }
  R.classify(all ? "model:all-cells" : "model:subset");
  bool boundChanged = false;
  int nUpdates = 0;
  try {
    IncrNetModel mx = all && t.flip() ? IncrNetModel::xTopology(c) : IncrNetModel::xTopology(c, subset);
    IncrNetModel my = all && t.flip() ? IncrNetModel::yTopology(c) : IncrNetModel::yTopology(c, subset);
    std::vector<int> posX, posY;
    for (int cell : subset) posX.push_back(c.cellX_[cell]), posY.push_back(c.cellY_[cell]);
    auto verify = [&](const char *when) -> std::string {
      long long rx = refAxis(c, true, subset, posX), ry = refAxis(c, false, subset, posY);
      std::ostringstream s;
      if (mx.value() != rx) {
        s << "x model value " << mx.value() << " != reference " << rx << " " << when;
        return s.str();
      }
      if (my.value() != ry) {
        s << "y model value " << my.value() << " != reference " << ry << " " << when;
        return s.str();
      }
      return "";
    };
    std::string v = verify("after construction");
    if (!v.empty()) return R.fail(v);
    if (all) {
      long long tot = mx.value() + my.value();
      if (tot != c.hpwl()) return R.fail("x+y model values differ from hpwl()");
    }
    nUpdates = subset.empty() ? 0 : t.choose(0, 40);
    for (int u = 0; u < nUpdates; ++u) {
      int i = t.choose(0, (int)subset.size() - 1);
      bool ax = t.flip();
      int cls = t.weighted({3, 3, 1});
      long long cur = ax ? posX[i] : posY[i];
      long long np = cls == 0 ? cur + t.range(-5, 5) : cls == 1 ? t.range(-C, C) : cur;
      np = std::max(-C, std::min(np, C));
      long long before = ax ? mx.value() : my.value();
      if (ax) {
        mx.updateCellPos(i, (int)np);
        posX[i] = (int)np;
      } else {
        my.updateCellPos(i, (int)np);
        posY[i] = (int)np;
      }
      if ((ax ? mx.value() : my.value()) != before) boundChanged = true;
      v = verify("after an update");
      if (!v.empty()) return R.fail(v + " (update " + std::to_string(u) + ")");
    }
    mx.check();
    my.check();
  } catch (const std::exception &ex) {
    return R.fail(std::string("exception: ") + ex.what());
  }
  if (ntNet && (nUpdates == 0 || boundChanged)) {
    Hasher hh;
    hh.addv(w).addv(h).addv(x).addv(y).addv(c.pinCells_).addv(c.pinXOffsets_).addv(c.pinYOffsets_).addv(subset).add(nUpdates);
    for (auto o : ori) hh.add((int)o);
    R.classify("nontrivial");
    R.nontrivial(hh.h, [&] {
      std::ostringstream s;
      s << "{\"cells\":" << n << ",\"nets\":" << c.nbNets() << ",\"pins\":" << c.nbPins()
        << ",\"orientations\":[";
      for (int i = 0; i < n; ++i) s << (i ? "," : "") << (int)ori[i];
      s << "],\"model_cells\":" << subset.size() << ",\"updates\":" << nUpdates << ",\"hpwl\":" << c.hpwl() << "}";
      return s.str();
    });
  }
  return true;
}

// Exhaustive: one cell 4x3 (and 3x4, 0x0, 5x5) x 8 orientations x every pin
// offset in the outline +-1.
bool exhaustive(Report &R, int shard, int nshards, Tape &failTape) {
  long long idx = 0;
  static const int sizes[][2] = {{4, 3}, {3, 4}, {0, 0}, {5, 5}, {1, 7}, {7, 0}};
  for (auto &sz : sizes)
    for (int o = 0; o < 8; ++o)
      for (int px = -1; px <= sz[0] + 1; ++px)
        for (int py = -1; py <= sz[1] + 1; ++py) {
          if ((idx++) % nshards != shard) continue;
          ++R.exhaustiveStates;
          Tape t;
          t.w = {kExplicit, (uint32_t)sz[0], (uint32_t)sz[1], (uint32_t)o, (uint32_t)px, (uint32_t)py};
          Report tmp;
          tmp.frozen = true;
          if (!prop(t, tmp)) {
            R.failReason = tmp.failReason;
            failTape = t;
            failTape.pos = 0;
            return false;
          }
          if (o != 0) ++R.nontrivialCount;
        }
  R.exhaustiveDone = true;
  R.sample("{\"exhaustive\":\"one cell of size 4x3, 3x4, 0x0, 5x5, 1x7, 7x0 x 8 orientations x every pin offset in the outline +-1, net to a fixed terminal\"}");
  return true;
}
}  // namespace verif
