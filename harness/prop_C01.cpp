// C01 — legalization returns a legal placement or fails loudly.
#include "gen_circuit.hpp"

using namespace coloquinte;

namespace verif {
const char *propId() { return "C01"; }

namespace {
bool judge(const CircuitSpec &s, const ColoquinteParameters &params, Report &R, bool record, const Circuit *prepared = nullptr);
}

bool prop(Tape &t, Report &R) {
  if (!t.w.empty() && t.w[0] == kExplicitSpec) {
    CircuitSpec s = decodeSpec(t);
    ColoquinteParameters params(1 + (int)(t.next() % 9));
    int ow = (int)(t.next() % 4);
    static const double ows[] = {0.2, 0.9, 0.0, 0.5};
    params.legalization.orderingWidth = ows[ow];
    if (s.nbMovable() == 0 || !specInDomain(s)) return true;  // literal specs outside the quantified domain are not judged
    return judge(s, params, R, false);
  }
  HistoryScope hist(t, R);
  GenOpts o;
  if (R.thorough()) o.maxCells = 60, o.maxLevels = 16;
  CircuitSpec s = genCircuit(t, o);
  if (t.flip(1, 6)) {
    // a legal start must stay acceptable too
    CircuitSpec s2 = s;
    bool rowHighOnly = true;
    for (auto &c : s2.cells)
      if (!c.fixed && s2.placedH(c) != s2.rowHeight) rowHighOnly = false;
    if (rowHighOnly && packLegal(s2, t) && s2.nbMovable() > 0) s = s2;
  }
  ParamOpts po;
  ColoquinteParameters params = genParams(t, po, &s.labels);
  for (auto &l : s.labels) R.classify(l);
  if (s.nbMovable() == 0) {
    R.discard("no movable cell");
    return true;
  }
  // decided at the very end of the tape so that older tapes keep their meaning (nothing is read
  // while a case is judged): a large companion, an object history
  uint32_t tail = t.next();
  uint32_t hw = t.next();
  if (!judge(s, params, R, true)) return false;
  // occasionally also a large companion instance (size-dependent code paths)
  if (tail % 24 == 1) {
    CircuitSpec big = genLargeCircuit(tail, o);
    if (big.nbMovable() > 0) {
      for (auto &l : big.labels)
        if (l.rfind("size:", 0) == 0) R.classify(l);
      R.classify(big.nbMovable() >= 100 ? "large:100+cells" : "large:<100cells");
      if (!judge(big, params, R, true)) return false;
    }
  }
  // object history (decided after everything else): the same contents on a Circuit object that
  // was legalized before with its fixed cells elsewhere and then modified through its setters
  if (hw % 3 == 1) {
    std::string route;
    Circuit h = buildWithHistory(s, hw, [&](Circuit &c) { c.legalize(params); }, &route);
    R.classify("history:legalize," + route + ",legalize");
    if (!judge(s, params, R, true, &h)) {
      R.failReason = "on a circuit object legalized before with its fixed cells elsewhere, then set to these contents with " + route + ": " + R.failReason;
      return false;
    }
  }
  return true;
}

namespace {
bool judge(const CircuitSpec &s, const ColoquinteParameters &params, Report &R, bool record, const Circuit *prepared) {
  Circuit c = prepared ? *prepared : s.build();
  Frame before = snap(c);

  // trivial feasibility (C01, last clause), from the spec alone
  std::vector<FreeSeg> segs = specFreeSegments(s);
  long long freeW = 0, sumW = 0, maxW = 0;
  for (auto &sg : segs) freeW += sg.maxX - sg.minX;
  bool rowHigh = true, unrestricted = true, positive = true;
  int movable = 0;
  bool multiRow = false, outside = false;
  long long aMinX = LLONG_MAX, aMaxX = LLONG_MIN, aMinY = LLONG_MAX, aMaxY = LLONG_MIN;
  for (auto &r : s.rows) {
    aMinX = std::min<long long>(aMinX, r.minX), aMaxX = std::max<long long>(aMaxX, r.maxX);
    aMinY = std::min<long long>(aMinY, r.minY), aMaxY = std::max<long long>(aMaxY, r.maxY);
  }
  long long movArea = 0;
  for (auto &cs : s.cells) {
    if (cs.fixed) continue;
    ++movable;
    long long pw = s.placedW(cs), ph = s.placedH(cs);
    if (ph != s.rowHeight) rowHigh = false, multiRow = true;
    if (cs.polarity == (int)CellRowPolarity::NW || cs.polarity == (int)CellRowPolarity::SE) unrestricted = false;
    if (pw <= 0) positive = false;
    sumW += pw;
    maxW = std::max(maxW, pw);
    movArea += pw * ph;
    if (cs.x < aMinX || cs.x + pw > aMaxX || cs.y < aMinY || cs.y + ph > aMaxY) outside = true;
  }
  bool trivial = rowHigh && unrestricted && positive && sumW <= freeW - (long long)segs.size() * maxW;
  if (trivial) R.classify("trivially-feasible");

  bool threw = false;
  std::string what;
  try {
    c.legalize(params);
  } catch (const std::exception &e) {
    threw = true;
    what = e.what();
  } catch (...) {
    return R.fail("legalize threw something that is not a std::exception");
  }
  Frame after = snap(c);
  if (threw) {
    R.classify("outcome:throws");
    for (auto &l : s.labels)
      if (l.rfind("util:", 0) == 0) R.classify("throws|" + l);
    R.classify(multiRow ? "throws|has-multi-row-cells" : "throws|row-high-only");
    if (!unrestricted) R.classify("throws|has-NW/SE-cells");
    if (trivial)
      return R.fail("legalize failed on a trivially feasible circuit (" + what + ") " + s.json());
    std::string d = diffFrame(before, after, false, true);
    if (!d.empty())
      return R.fail("legalize threw (" + what + ") but left a modified placement: " + d + " " + s.json());
  } else {
    R.classify("outcome:returns");
    std::string d = diffFrame(before, after, true, false);
    if (!d.empty()) return R.fail("legalize changed more than movable positions: " + d);
    std::string e = legalityError(c);
    if (!e.empty()) return R.fail("illegal placement returned: " + e + " " + s.json());
  }
  // non-trivial by the stated rule
  bool obstructed = false, split = s.labels.count("rows:split") != 0;
  for (auto &l : s.labels)
    if (l == "fixed:obstruction-inside" || l == "fixed:obstruction-partial" || l == "fixed:obstruction-enclosing") obstructed = true;
  long long freeArea = freeW * s.rowHeight;
  bool dense = freeArea > 0 && movArea * 10 >= freeArea * 8;
  if (movable >= 2 && (obstructed || split || multiRow || dense || outside)) {
    if (record) R.nontrivial(s.hash(), [&] { return s.json(24); });
    else ++R.nontrivialCount;
  }
  return true;
}
}  // namespace

// Small-scope exhaustive part: four row configurations (two full rows; a split
// row under a full row; three short alternating rows; two levels of two abutting segments) x {no obstruction, a 1x1
// fixed obstruction} x every combination of 1..2 (3 thorough) movable cells of
// size {1x1,2x1,1x2,3x1}, polarity {ANY,SAME,NW}, target x in -1..5, y in -1..3
// x two ordering parameter sets.
bool exhaustive(Report &R, int shard, int nshards, Tape &failTape) {
  std::vector<std::vector<Row>> cfgs = {
      {Row(0, 4, 0, 1, CellOrientation::N), Row(0, 4, 1, 2, CellOrientation::FS)},
      {Row(0, 2, 0, 1, CellOrientation::N), Row(3, 5, 0, 1, CellOrientation::N), Row(0, 5, 1, 2, CellOrientation::FS)},
      {Row(0, 3, 0, 1, CellOrientation::N), Row(0, 3, 1, 2, CellOrientation::FS), Row(0, 3, 2, 3, CellOrientation::N)},
      // abutting segments at the same x on both levels
      {Row(0, 2, 0, 1, CellOrientation::N), Row(2, 4, 0, 1, CellOrientation::N), Row(0, 2, 1, 2, CellOrientation::FS), Row(2, 4, 1, 2, CellOrientation::FS)}};
  struct Opt {
    int w, h, pol, x, y;
  };
  bool th = R.thorough();
  std::vector<Opt> full, reduced;
  static const int sizes[][2] = {{1, 1}, {2, 1}, {1, 2}, {3, 1}};
  static const int pols[] = {0, 1, 3};
  for (auto &sz : sizes)
    for (int p : pols)
      for (int x = -1; x <= 5; ++x)
        for (int y = -1; y <= 3; ++y) full.push_back({sz[0], sz[1], p, x, y});
  for (int k = 0; k < 3; ++k)
    for (int p : {0, 3})
      for (int x : {0, 2, 4})
        for (int y : {0, 1, 2}) reduced.push_back({sizes[k][0], sizes[k][1], p, x, y});
  long long idx = 0;
  auto runOne = [&](const CircuitSpec &s, int ow) -> bool {
    ColoquinteParameters params(1);
    static const double ows[] = {0.2, 0.9};
    params.legalization.orderingWidth = ows[ow];
    ++R.exhaustiveStates;
    R.heartbeat();
    Report tmp;
    tmp.frozen = true;
    if (!judge(s, params, tmp, false)) {
      R.failReason = tmp.failReason;
      failTape = encodeSpec(s, {0, ow});
      return false;
    }
    R.nontrivialCount += tmp.nontrivialCount;
    return true;
  };
  for (size_t ci = 0; ci < cfgs.size(); ++ci)
    for (int obst = 0; obst < 2; ++obst) {
      CircuitSpec base;
      base.rowHeight = 1;
      base.rows = cfgs[ci];
      if (obst) {
        CellSpec f;
        f.fixed = true, f.obstruction = true, f.w = 1, f.h = 1, f.x = 1, f.y = 0;
        base.cells.push_back(f);
      }
      auto mk = [&](const Opt &o) {
        CellSpec c;
        c.w = o.w, c.h = o.h, c.polarity = o.pol, c.x = o.x, c.y = o.y;
        return c;
      };
      for (size_t a = 0; a < full.size(); ++a) {
        if ((idx++) % nshards != shard) continue;
        for (int ow = 0; ow < 2; ++ow) {
          CircuitSpec s1 = base;
          s1.cells.push_back(mk(full[a]));
          if (!runOne(s1, ow)) return false;
          for (size_t b = 0; b < full.size(); ++b) {
            CircuitSpec s2 = s1;
            s2.cells.push_back(mk(full[b]));
            if (!runOne(s2, ow)) return false;
          }
        }
      }
      if (th)
        for (size_t a = 0; a < reduced.size(); ++a) {
          if ((idx++) % nshards != shard) continue;
          for (size_t b = 0; b < reduced.size(); ++b)
            for (size_t d = 0; d < reduced.size(); ++d)
              for (int ow = 0; ow < 2; ++ow) {
                CircuitSpec s3 = base;
                s3.cells.push_back(mk(reduced[a])), s3.cells.push_back(mk(reduced[b])), s3.cells.push_back(mk(reduced[d]));
                if (!runOne(s3, ow)) return false;
              }
        }
    }
  R.exhaustiveDone = true;
  R.sample(std::string("{\"exhaustive\":\"4 row configurations x {no obstruction, 1x1 obstruction} x all 1..2 cell combinations from 4 sizes x 3 polarities x 35 targets") +
           (th ? ", plus all 3-cell combinations from a reduced set of 54 options" : "") + ", x 2 ordering-width values\"}");
  return true;
}
}  // namespace verif
