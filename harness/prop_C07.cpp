// C07 — placement entry points return or throw; they never abort on an
// internal assertion, read or write out of bounds, overflow signed arithmetic,
// divide by zero, or fail to terminate.  The oracle is the process itself:
// sanitizers (ASan, UBSan incl. float-cast-overflow) and assert() are on in the
// `san` build, the `sannd` build repeats everything with NDEBUG.
#include "gen_circuit.hpp"
#include "stages.hpp"

using namespace coloquinte;

namespace verif {
const char *propId() { return "C07"; }

namespace {
/// explicit reproducer of known finding #17: `nr` unit rows of width `rw` at
/// (ox,oy), `nc` unit cells, one 2-pin net, default parameters, placeGlobal
bool explicitCase(Tape &t, Report &R) {
  t.next();
  int ox = (int)(int32_t)t.next(), oy = (int)(int32_t)t.next();
  ox = std::max(-(1 << 22), std::min(ox, (1 << 22) - 64));
  oy = std::max(-(1 << 22), std::min(oy, (1 << 22) - 64));
  int nr = 1 + (int)(t.next() % 8), rw = 4 + (int)(t.next() % 60), nc = 2 + (int)(t.next() % 6);
  CircuitSpec s;
  s.rowHeight = 1;
  for (int r = 0; r < nr; ++r) s.rows.emplace_back(ox, ox + rw, oy + r, oy + r + 1, r % 2 ? CellOrientation::FS : CellOrientation::N);
  for (int i = 0; i < nc; ++i) {
    CellSpec c;
    c.w = c.h = 1, c.x = ox, c.y = oy;
    s.cells.push_back(c);
  }
  NetSpec net;
  net.cells = {0, 1}, net.xo = {0, 0}, net.yo = {0, 0};
  s.nets.push_back(net);
  double far = std::max({std::fabs((double)ox), std::fabs((double)oy)});
  R.tag(std::string("unanchored-component") + (far > 1e3 ? " rho>1e3" : " rho<=1e3"));
  ColoquinteParameters params(3, 0);
  params.global.maxNbSteps = 30;
  Circuit c = s.build();
  StageResult r = runStage(c, kGlobal, params);
  if (r.otherException) return R.fail("non-std exception");
  return true;
}
}  // namespace

bool prop(Tape &t, Report &R) {
  if (!t.w.empty() && t.w[0] == 0xE7E7E7E7u) return explicitCase(t, R);
  int flow = t.weighted({3, 3, 3, 3, 1, 1});
  static const char *fn[] = {"flow:global", "flow:legalize", "flow:detailed", "flow:global-legalize-detailed",
                             "flow:global-detailed", "flow:legalize-legalize-detailed"};
  bool usesGlobal = flow == 0 || flow == 3 || flow == 4;
  HistoryScope hist(t, R);
  GenOpts o;
  o.maxCells = R.thorough() ? 40 : 20;
  o.maxLevels = R.thorough() ? 12 : 8;
  o.forceScale = t.weighted({2, 2, 5});  // biased to the nanometre scale
  o.zeroSizeMovable = false;
  if (usesGlobal) {
    o.boundMinHeight = true;
    o.globalDomain = t.flip();
    o.anchorPct = 80;
  }
  CircuitSpec s = genCircuit(t, o);
  // degenerate shapes
  int deg = t.weighted({6, 1, 1, 1, 1, 1, 1});
  static const char *dn[] = {"shape:as-generated", "shape:single-row", "shape:single-movable-cell", "shape:no-nets",
                             "shape:degree-1-nets", "shape:all-pins-on-one-cell", "shape:all-fixed-but-one"};
  switch (deg) {
    case 1: s.rows.erase(s.rows.begin() + 1, s.rows.end()); break;
    case 2: {
      bool kept = false;
      std::vector<CellSpec> cs;
      for (auto &c : s.cells)
        if (c.fixed || !kept) {
          kept |= !c.fixed;
          cs.push_back(c);
        }
      if (cs.size() != s.cells.size()) s.nets.clear();
      s.cells = cs;
      break;
    }
    case 3: s.nets.clear(); break;
    case 4:
      for (auto &n : s.nets)
        if (n.cells.size() > 1) n.cells.resize(1), n.xo.resize(1), n.yo.resize(1);
      break;
    case 5:
      for (auto &n : s.nets)
        for (auto &c : n.cells) c = 0;
      break;
    case 6: {
      bool kept = false;
      for (auto &c : s.cells)
        if (!c.fixed) {
          if (kept) c.fixed = true;
          kept = true;
        }
      break;
    }
    default: break;
  }
  s.labels.insert(dn[deg]);
  s.labels.insert(fn[flow]);
  ParamOpts po;
  po.global = usesGlobal;
  po.maxNbSteps = R.thorough() ? 40 : 20;
  ColoquinteParameters params = genParams(t, po, &s.labels);
  bool positive = false;
  for (auto &c : s.cells)
    if (!c.fixed && (long long)c.w * c.h > 0) positive = true;
  if (!positive || s.rows.empty()) {
    R.discard("no movable cell of positive area");
    return true;
  }
  if (usesGlobal) {
    // known finding c06-unanchored-far-from-origin (also a C07 matter): excluded by construction
    long long far = 0;
    for (auto &r : s.rows) far = std::max<long long>({far, std::llabs((long long)r.minX), std::llabs((long long)r.maxX), std::llabs((long long)r.minY), std::llabs((long long)r.maxY)});
    double tot = 0;
    for (auto &c : s.cells)
      if (!c.fixed) tot += (double)c.w * c.h;
    double avg = std::sqrt(tot / std::max<size_t>(1, s.cells.size()));
    bool un = !unanchoredComponents(s).empty();
    R.tag(std::string(un ? "unanchored-component" : "all-components-anchored") + (avg <= 0 || far / avg > 1e3 ? " rho>1e3" : " rho<=1e3"));
    if (un && (avg <= 0 || far / avg > 1e3) && R.known("c07-unanchored-far-from-origin")) {
      R.exclude("c07-unanchored-far-from-origin");
      return true;
    }
  }
  for (auto &l : s.labels) R.classify(l);

  std::vector<int> stages;
  switch (flow) {
    case 0: stages = {kGlobal}; break;
    case 1: stages = {kLegalize}; break;
    case 2: stages = {kDetailed}; break;
    case 3: stages = {kGlobal, kLegalize, kDetailed}; break;
    case 4: stages = {kGlobal, kDetailed}; break;
    default: stages = {kLegalize, kLegalize, kDetailed}; break;
  }
  bool observe = t.flip(1, 3);
  int reached = 0, threw = 0;
  auto runFlow = [&](const CircuitSpec &s, const ColoquinteParameters &params) -> bool {
  Circuit c = s.build();
  for (int st : stages) {
    long long sink = 0;
    PlacementCallback cb = [&](PlacementStep) { sink += c.hpwl(); };
    StageResult r = observe ? runStage(c, st, params, cb) : runStage(c, st, params);
    if (r.otherException) return R.fail(std::string(stageName(st)) + " threw something that is not a std::exception " + s.json());
    ++reached;
    if (!r.returned) ++threw;
    // the circuit stays usable whatever happened
    try {
      (void)c.hpwl();
      (void)c.toString();
      (void)c.report();
      c.check();
    } catch (const std::exception &) {
    }
  }
  return true;
  };
  if (!runFlow(s, params)) return false;
  // occasionally also a large companion instance (decided at the very end of the tape)
  uint32_t tail = t.next();
  if (tail % 32 == 1) {
    if (usesGlobal) o.anchorPct = 100;
    CircuitSpec big = genLargeCircuit(tail, o, 250);
    bool positiveBig = false;
    for (auto &c : big.cells)
      if (!c.fixed && (long long)c.w * c.h > 0) positiveBig = true;
    if (positiveBig && (!usesGlobal || unanchoredComponents(big).empty())) {
      R.classify(big.nbMovable() >= 100 ? "large:100+cells" : "large:<100cells");
      ColoquinteParameters p2 = params;
      p2.global.maxNbSteps = std::min(p2.global.maxNbSteps, 10);
      int r0 = reached, t0 = threw;
      if (!runFlow(big, p2)) return false;
      reached = r0, threw = t0;
    }
  }
  // ... and a degenerate companion: rows completely covered by an obstruction and by multi-row cells
  if (tail % 32 == 2 && !usesGlobal) {
    CircuitSpec cov = genCoveredCircuit(tail);
    R.classify("shape:rows-fully-covered");
    int r0 = reached, t0 = threw;
    if (!runFlow(cov, params)) return false;
    reached = r0, threw = t0;
  }
  // ... and rows cut into many short segments by tap cells
  if (tail % 32 == 3 && !usesGlobal) {
    CircuitSpec comb = genCombCircuit(tail);
    R.classify("shape:rows-cut-into-17+-segments");
    int r0 = reached, t0 = threw;
    if (!runFlow(comb, params)) return false;
    reached = r0, threw = t0;
  }
  R.classify(threw ? "outcome:some-stage-threw" : "outcome:all-returned");
  if ((reached >= 2 || threw) && s.scale >= 1) R.nontrivial(s.hash() ^ Hasher().add(flow).add(deg).h, [&] { return s.json(12); });
  return true;
}

bool exhaustive(Report &, int, int, Tape &) { return true; }
}  // namespace verif
