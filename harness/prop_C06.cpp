// C06 — global placement stays inside the placement area, exposes only finite
// in-range coordinates, returns the documented LB/UB blend, and completes.
#include <cmath>

#include <fcntl.h>

#include "gen_circuit.hpp"
#include "isolate.hpp"
#include "stages.hpp"

using namespace coloquinte;

namespace verif {
const char *propId() { return "C06"; }

namespace {
double ulpFloat(double v) {
  float f = (float)std::fabs(v);
  return (double)(std::nextafter(f, INFINITY) - f);
}

bool judgeSpec(CircuitSpec s, const ColoquinteParameters &params, bool k17, Report &R);
}  // namespace

bool prop(Tape &t, Report &R) {
  HistoryScope hist(t, R);
  GenOpts o;
  o.globalDomain = true;
  o.maxCells = R.thorough() ? 40 : 16;
  o.maxLevels = R.thorough() ? 12 : 8;
  o.overfull = false;
  o.anchorPct = 70;
  // Known finding #17: the single-precision solve breaks down when a component
  // of movable cells has no fixed pin and the area is far from the origin.
  bool k17 = R.known("c06-unanchored-far-from-origin");
  CircuitSpec s;
  ColoquinteParameters params(3, 0);
  if (!t.w.empty() && t.w[0] == 0xE7E7E7E7u) {
    // explicit: `nr` unit rows of width `rw` at (ox,oy), `nc` unit cells at the
    // area corner, one 2-pin net between the first two cells (if anchored: a
    // third pin on a fixed terminal), default parameters with seed 0
    t.next();
    int ox = (int)(int32_t)t.next(), oy = (int)(int32_t)t.next();
    ox = std::max(-(1 << 22), std::min(ox, (1 << 22) - 64));
    oy = std::max(-(1 << 22), std::min(oy, (1 << 22) - 64));
    int nr = 1 + (int)(t.next() % 8), rw = 4 + (int)(t.next() % 60), nc = 2 + (int)(t.next() % 6);
    bool anchored = t.next() & 1;
    s.rowHeight = 1;
    for (int r = 0; r < nr; ++r) s.rows.emplace_back(ox, ox + rw, oy + r, oy + r + 1, r % 2 ? CellOrientation::FS : CellOrientation::N);
    for (int i = 0; i < nc; ++i) {
      CellSpec c;
      c.w = c.h = 1;
      c.x = ox;
      c.y = oy;
      s.cells.push_back(c);
    }
    NetSpec net;
    net.cells = {0, 1};
    net.xo = {0, 0};
    net.yo = {0, 0};
    if (anchored) {
      CellSpec term;
      term.fixed = true, term.obstruction = false, term.w = term.h = 0, term.x = ox + 1, term.y = oy;
      s.cells.push_back(term);
      net.cells.push_back(nc), net.xo.push_back(0), net.yo.push_back(0);
    }
    s.nets.push_back(net);
    s.labels.insert("explicit");
    k17 = false;
    params.global.maxNbSteps = 30;
  } else {
    s = genCircuit(t, o);
    ParamOpts po;
    po.global = true;
    po.maxNbSteps = R.thorough() ? 60 : 30;
    params = genParams(t, po, &s.labels);
  }
  // decided at the very end of the tape (nothing is read while a case is judged): a large
  // companion instance, and movable cells whose obstruction flag is cleared (the flag only
  // matters for fixed cells; a movable cell takes part in placement either way)
  uint32_t tail = t.next();
  {
    uint32_t fw = t.next();
    if (fw % 4 == 1) {
      bool any = false;
      Tape bits = expandTape(fw, s.cells.size());
      for (auto &c : s.cells)
        if (!c.fixed && bits.next() % 3 == 0) c.obstruction = false, any = true;
      if (any) s.labels.insert("cells:movable-with-obstruction-flag-cleared");
    }
  }
  if (!judgeSpec(s, params, k17, R)) return false;
  if (tail % 48 == 1 && !(!t.w.empty() && t.w[0] == 0xE7E7E7E7u)) {
    o.anchorPct = 100;
    CircuitSpec big = genLargeCircuit(tail, o, 200);
    if (unanchoredComponents(big).empty()) {
      R.classify(big.nbMovable() >= 100 ? "large:100+cells" : "large:<100cells");
      ColoquinteParameters p2 = params;
      p2.global.maxNbSteps = std::min(p2.global.maxNbSteps, 12);
      if (!judgeSpec(big, p2, k17, R)) return false;
    }
  }
  return true;
}

namespace {
bool judgeSpec(CircuitSpec s, const ColoquinteParameters &params, bool k17, Report &R) {
  // magnitude ratio rho = distance(origin, area) / average cell length
  long long aMinX = LLONG_MAX, aMaxX = LLONG_MIN, aMinY = LLONG_MAX, aMaxY = LLONG_MIN;
  for (auto &r : s.rows) {
    aMinX = std::min<long long>(aMinX, r.minX), aMaxX = std::max<long long>(aMaxX, r.maxX);
    aMinY = std::min<long long>(aMinY, r.minY), aMaxY = std::max<long long>(aMaxY, r.maxY);
  }
  double dist = std::max({std::fabs((double)aMinX), std::fabs((double)aMaxX), std::fabs((double)aMinY), std::fabs((double)aMaxY)});
  double totArea = 0;
  int nm = 0;
  bool positiveArea = false;
  long long hmin = LLONG_MAX;
  for (auto &c : s.cells) {
    if (c.h > 0) hmin = std::min<long long>(hmin, c.h);
    if (c.fixed) continue;
    ++nm;
    totArea += (double)c.w * c.h;
    if ((long long)c.w * c.h > 0) positiveArea = true;
  }
  double avgLen = std::sqrt(totArea / std::max<size_t>(1, s.cells.size()));
  double rho = avgLen > 0 ? dist / avgLen : 1e30;
  bool unanchored = !unanchoredComponents(s).empty();
  s.labels.insert(rho <= 1e2 ? "rho:<=1e2" : rho <= 1e4 ? "rho:<=1e4" : "rho:>1e4");
  s.labels.insert(unanchored ? "component:unanchored" : "component:all-anchored");
  for (auto &l : s.labels) R.classify(l);
  if (!positiveArea) {
    R.discard("no movable cell of positive area");
    return true;
  }
  // domain guard: a free segment must survive the side margin
  long long margin = (long long)(params.global.roughLegalization.sideMargin * (double)hmin);
  bool survives = false;
  for (auto &sg : specFreeSegments(s))
    if (sg.maxX - sg.minX > 2 * margin) survives = true;
  if (!survives) {
    R.discard("side margin removes every free row segment");
    return true;
  }
  // The class of the known finding is not skipped: it is judged in a forked
  // child.  On the unchanged tree the child dies in the recorded undefined
  // conversion (counted as excluded); a child that survives is judged like any
  // other case, so a different defect in that class is still reported.
  bool isolate = k17 && unanchored && rho > 1e3;
  R.tag(std::string(unanchored ? "unanchored-component" : "all-components-anchored") + (rho > 1e3 ? " rho>1e3" : " rho<=1e3"));

  auto judge = [&](Report &R) -> bool {
  Circuit c = s.build();
  Frame before = snap(c);
  int n = c.nbCells();
  std::vector<int> lbX, lbY, ubX, ubY;
  int nLB = 0, nUB = 0, nCb = 0;
  std::string err;
  double maxAbs = std::max(dist, 1.0);
  PlacementCallback cb = [&](PlacementStep st) {
    ++nCb;
    if (!err.empty()) return;
    for (int i = 0; i < n; ++i) {
      if (c.isFixed(i)) continue;
      long long x = c.x(i), y = c.y(i);
      if (std::llabs(x) > (1LL << 30) || std::llabs(y) > (1LL << 30)) {
        std::ostringstream m;
        m << "exposed coordinate out of range at callback " << nCb << ": cell " << i << " at (" << x << "," << y << ")";
        err = m.str();
        return;
      }
    }
    if (st == PlacementStep::LowerBound) {
      ++nLB;
      lbX = c.cellX();
      lbY = c.cellY();
    }
    if (st == PlacementStep::UpperBound) {
      ++nUB;
      ubX = c.cellX();
      ubY = c.cellY();
      double tol = 1.0 + 2 * ulpFloat(maxAbs);
      for (int i = 0; i < n; ++i) {
        if (c.isFixed(i) || c.area(i) <= 0) continue;
        double cx = c.x(i) + 0.5 * c.placedWidth(i), cy = c.y(i) + 0.5 * c.placedHeight(i);
        if (cx < aMinX - tol || cx > aMaxX + tol || cy < aMinY - tol || cy > aMaxY + tol) {
          std::ostringstream m;
          m << "upper-bound placement " << nUB << " puts the centre of cell " << i << " at (" << cx << "," << cy
            << "), outside the rows' bounding box [" << aMinX << "," << aMaxX << "]x[" << aMinY << "," << aMaxY << "]";
          err = m.str();
          return;
        }
      }
    }
  };
  StageResult r = runStage(c, kGlobal, params, cb);
  if (r.otherException) return R.fail("placeGlobal threw a non-std exception " + s.json());
  if (r.stdException) return R.fail("placeGlobal raised an error inside its domain: " + r.what + " " + s.json());
  if (!err.empty()) return R.fail(err + " " + s.json());
  // blend
  double w = params.global.exportBlending;
  bool lbUbDiffer = false;
  if (!lbX.empty() && !ubX.empty()) {
    for (int i = 0; i < n; ++i) {
      if (c.isFixed(i)) continue;
      // the blend is computed in single precision on the LB/UB values themselves
      double mag = std::max({maxAbs, std::fabs((double)lbX[i]), std::fabs((double)ubX[i]), std::fabs((double)lbY[i]), std::fabs((double)ubY[i])});
      double tol = 0.5 * (std::fabs(1 - w) + std::fabs(w)) + 0.5 + 4 * ulpFloat(mag) * std::max(1.0, std::fabs(1 - w) + std::fabs(w));
      double ex = (1 - w) * lbX[i] + w * ubX[i], ey = (1 - w) * lbY[i] + w * ubY[i];
      if (std::abs(lbX[i] - ubX[i]) > 4 || std::abs(lbY[i] - ubY[i]) > 4) lbUbDiffer = true;
      if (std::fabs(c.x(i) - ex) > tol || std::fabs(c.y(i) - ey) > tol) {
        std::ostringstream m;
        m << "returned position of cell " << i << " (" << c.x(i) << "," << c.y(i) << ") is not the blend w=" << w
          << " of the last lower bound (" << lbX[i] << "," << lbY[i] << ") and the last upper bound (" << ubX[i] << ","
          << ubY[i] << "): expected (" << ex << "," << ey << ") +- " << tol;
        return R.fail(m.str() + " " + s.json());
      }
    }
  } else {
    return R.fail("placeGlobal exposed no lower-bound or no upper-bound placement");
  }
  for (int i = 0; i < n; ++i)
    if (!c.isFixed(i) && (std::llabs((long long)c.x(i)) > (1LL << 30) || std::llabs((long long)c.y(i)) > (1LL << 30)))
      return R.fail("returned coordinate out of range " + s.json());
  std::string d = diffFrame(before, snap(c), true, true);
  if (!d.empty()) return R.fail("placeGlobal changed more than movable positions: " + d);
  bool fixedStuff = false;
  for (auto &cs : s.cells) fixedStuff |= cs.fixed;
  R.classify("steps:" + std::string(nUB >= 10 ? "10+" : nUB >= 3 ? "3-9" : "1-2"));
  if (nUB >= 3 && lbUbDiffer && fixedStuff) R.nontrivial(s.hash(), [&] { return s.json(16); });
  return true;
  };
  if (isolate) {
    std::string why;
    int rc = runIsolated([&](std::string &w) {
      Report tmp;
      tmp.frozen = true;
      bool ok = judge(tmp);
      w = tmp.failReason;
      return ok;
    }, why, 120);
    if (rc == 2) {
      R.exclude("c06-unanchored-far-from-origin");
      return true;
    }
    if (rc == 1 && why.find("coordinate out of range") != std::string::npos) {
      // the other face of the recorded finding: finite garbage instead of NaN
      R.exclude("c06-unanchored-far-from-origin");
      return true;
    }
    R.classify("known-finding-class-survived-in-child");
    if (rc == 1) return R.fail(why + " [judged in a forked child: class of the known finding]");
    return true;
  }
  return judge(R);
}
}  // namespace

bool exhaustive(Report &, int, int, Tape &) { return true; }
}  // namespace verif
