// Shared drivers for the detailed-placement properties C02 (legality of every
// exposed state) and C05 (wirelength never worsens).  The two properties use
// the same generated runs and differ in the observer.
#pragma once

#include "gen_circuit.hpp"
#include "place_detailed/place_detailed.hpp"
#include "stages.hpp"

namespace verif {
using namespace coloquinte;

struct DetailedObserver {
  bool checkLegality = false;  // C02
  bool checkWirelength = false;  // C05
};

inline std::vector<int> macroCells(const Circuit &c) {
  std::vector<int> m;
  int rh = c.rows().empty() ? 0 : c.rows()[0].height();
  for (int i = 0; i < c.nbCells(); ++i)
    if (!c.isFixed(i) && refPlacedH(c, i) != rh) m.push_back(i);
  return m;
}

struct TopLevelOutcome {
  bool discarded = false;
  std::string discardWhy;
  std::string error;  // violation
  int callbacks = 0;
  bool moved = false;            // some cell moved between two exposed states
  bool hpwlDecreased = false;
  bool orientationChanged = false;  // a cell changed orientation between exposed states
  long long firstHpwl = 0, lastHpwl = 0;
};

/// (a) top level: placeDetailed with an observing callback.
inline TopLevelOutcome runTopLevel(const CircuitSpec &s, const ColoquinteParameters &params,
                                   const DetailedObserver &ob, bool excludeOrientFlip,
                                   const Circuit *prepared = nullptr) {
  TopLevelOutcome out;
  Circuit cl = s.build();
  StageResult rl = runStage(cl, kLegalize, params);
  if (!rl.returned) {
    out.discarded = true;
    out.discardWhy = rl.otherException ? "legalize threw a non-std exception" : "legalization infeasible";
    return out;
  }
  if (!legalityError(cl).empty()) {
    out.discarded = true;
    out.discardWhy = "legalization returned an illegal placement (C01)";
    return out;
  }
  Circuit c = prepared ? *prepared : s.build();
  std::vector<int> macros = macroCells(cl);
  Frame first;
  bool haveFirst = false;
  Frame last;
  std::vector<long long> hp;
  std::string err;
  PlacementCallback cb = [&](PlacementStep st) {
    if (st != PlacementStep::Detailed) return;
    ++out.callbacks;
    Frame now = snap(c);
    if (ob.checkLegality && err.empty()) {
      std::string e = legalityError(c);
      if (!e.empty()) err = "illegal state at Detailed callback " + std::to_string(out.callbacks) + ": " + e;
    }
    if (!haveFirst) {
      first = now;
      haveFirst = true;
    } else {
      if (ob.checkLegality && err.empty())
        for (int m : macros)
          if (now.x[m] != first.x[m] || now.y[m] != first.y[m] || now.orient[m] != first.orient[m])
            err = "multi-row cell " + std::to_string(m) + " moved during detailed placement (callback " + std::to_string(out.callbacks) + ")";
      if (now.x != last.x || now.y != last.y) out.moved = true;
      if (now.orient != last.orient) out.orientationChanged = true;
    }
    last = now;
    hp.push_back(c.hpwl());
  };
  StageResult rd = runStage(c, kDetailed, params, cb);
  if (rd.otherException) {
    out.error = "placeDetailed threw a non-std exception";
    return out;
  }
  if (!rd.returned) {
    if (ob.checkLegality) out.error = "placeDetailed failed on a circuit that legalization accepts: " + rd.what;
    else out.discarded = true, out.discardWhy = "placeDetailed threw (C02)";
    return out;
  }
  if (!err.empty()) {
    out.error = err;
    return out;
  }
  Frame fin = snap(c);
  if (ob.checkLegality) {
    std::string e = legalityError(c);
    if (!e.empty()) {
      out.error = "illegal placement returned by placeDetailed: " + e;
      return out;
    }
    if (haveFirst)
      for (int m : macros)
        if (fin.x[m] != first.x[m] || fin.y[m] != first.y[m] || fin.orient[m] != first.orient[m]) {
          out.error = "multi-row cell " + std::to_string(m) + " moved during detailed placement (at return)";
          return out;
        }
    // the first exposed state is the legalized placement
    if (haveFirst && (first.x != snap(cl).x || first.y != snap(cl).y)) {
      // legalization is deterministic (C08); only macros are required to match by C02
      for (int m : macros)
        if (first.x[m] != cl.x(m) || first.y[m] != cl.y(m)) {
          out.error = "multi-row cell " + std::to_string(m) + " is not where legalization put it";
          return out;
        }
    }
  }
  if (haveFirst) {
    if (fin.x != last.x || fin.y != last.y) out.moved = true;
    if (fin.orient != last.orient) out.orientationChanged = true;
  }
  hp.push_back(c.hpwl());
  out.firstHpwl = hp.front();
  out.lastHpwl = hp.back();
  if (ob.checkWirelength) {
    if (out.orientationChanged && excludeOrientFlip) {
      out.discarded = true;
      out.discardWhy = "known:c05-orientation-flip";
      return out;
    }
    for (size_t i = 1; i < hp.size(); ++i) {
      if (hp[i] > hp[i - 1]) {
        std::ostringstream m;
        m << "wirelength increased between exposed states " << i - 1 << " and " << i << " (" << hp[i - 1] << " -> " << hp[i] << ")"
          << (i + 1 == hp.size() ? " [last = returned placement]" : "")
          << (out.orientationChanged ? " [a polarised cell changed orientation during the run]" : " [no orientation change]");
        out.error = m.str();
        return out;
      }
      if (hp[i] < hp[i - 1]) out.hpwlDecreased = true;
    }
    long long legalHpwl = cl.hpwl();
    if (hp.back() > legalHpwl) {
      std::ostringstream m;
      m << "returned wirelength " << hp.back() << " exceeds that of the legalized placement " << legalHpwl
        << (out.orientationChanged ? " [a polarised cell changed orientation during the run]" : " [no orientation change]");
      out.error = m.str();
      return out;
    }
  } else {
    for (size_t i = 1; i < hp.size(); ++i)
      if (hp[i] < hp[i - 1]) out.hpwlDecreased = true;
  }
  return out;
}

struct DirectOutcome {
  bool discarded = false;
  std::string discardWhy;
  std::string error;
  int passes = 0;
  bool valueChanged = false;
  bool orientationChanged = false;
};

/// (b) the optimiser driven directly on an already legal circuit.
inline DirectOutcome runDirect(const CircuitSpec &s, const ColoquinteParameters &params, Tape &t,
                               const DetailedObserver &ob, bool excludeOrientFlip, std::string *history = nullptr) {
  DirectOutcome out;
  Circuit cl = s.build();
  StageResult rl = runStage(cl, kLegalize, params);
  if (!rl.returned || !legalityError(cl).empty()) {
    out.discarded = true;
    out.discardWhy = "no legal start";
    return out;
  }
  std::vector<int> macros = macroCells(cl);
  Frame start = snap(cl);
  std::ostringstream hist;
  try {
    DetailedPlacer pl(cl, params);
    pl.check();
    if (ob.checkWirelength && pl.value() != cl.hpwl()) {
      out.error = "DetailedPlacer::value() " + std::to_string(pl.value()) + " != hpwl() " + std::to_string(cl.hpwl()) + " after construction";
      return out;
    }
    int nops = t.choose(1, 12);
    long long prev = pl.value();
    Frame prevFrame = start;
    for (int k = 0; k < nops; ++k) {
      int op = t.choose(0, 3);
      int r, n;
      switch (op) {
        case 0:
          r = t.choose(0, 6), n = t.choose(0, 10);
          hist << "swaps(" << r << "," << n << ") ";
          pl.runSwaps(r, n);
          break;
        case 1:
          r = t.choose(0, 6), n = t.choose(0, 10);
          hist << "inserts(" << r << "," << n << ") ";
          pl.runInserts(r, n);
          break;
        case 2:
          r = t.choose(0, 6), n = t.choose(2, 40);
          hist << "shifts(" << r << "," << n << ") ";
          pl.runShifts(r, n);
          break;
        default:
          r = t.choose(1, 3), n = t.choose(0, 5);
          hist << "reorder(" << r << "," << n << ") ";
          pl.runReordering(r, n);
          break;
      }
      ++out.passes;
      pl.check();
      Circuit cp = cl;
      pl.exportPlacement(cp);
      Frame now = snap(cp);
      if (now.orient != prevFrame.orient) out.orientationChanged = true;
      if (ob.checkLegality) {
        std::string e = legalityError(cp);
        if (!e.empty()) {
          out.error = "illegal placement after pass " + std::to_string(k) + " [" + hist.str() + "]: " + e;
          return out;
        }
        for (int m : macros)
          if (now.x[m] != start.x[m] || now.y[m] != start.y[m] || now.orient[m] != start.orient[m]) {
            out.error = "multi-row cell " + std::to_string(m) + " moved by pass " + std::to_string(k) + " [" + hist.str() + "]";
            return out;
          }
        std::string d = diffFrame(start, now, true, false);
        if (!d.empty()) {
          out.error = "optimiser pass changed more than movable positions: " + d;
          return out;
        }
      }
      long long v = pl.value();
      if (v != prev) out.valueChanged = true;
      if (ob.checkWirelength) {
        if (out.orientationChanged && excludeOrientFlip) {
          out.discarded = true;
          out.discardWhy = "known:c05-orientation-flip";
          return out;
        }
        if (v > prev) {
          out.error = "value() increased from " + std::to_string(prev) + " to " + std::to_string(v) + " in pass " + std::to_string(k) + " [" + hist.str() + "]";
          return out;
        }
        if (!out.orientationChanged && v != cp.hpwl()) {
          out.error = "value() " + std::to_string(v) + " differs from hpwl() " + std::to_string(cp.hpwl()) + " of the exported placement after pass " + std::to_string(k) + " [" + hist.str() + "] (no orientation change)";
          return out;
        }
      }
      prev = v;
      prevFrame = now;
    }
  } catch (const std::exception &e) {
    if (ob.checkLegality)
      out.error = std::string("exception from the optimiser on a legal circuit: ") + e.what() + " [" + hist.str() + "]";
    else
      out.discarded = true, out.discardWhy = "optimiser threw (C02)";
  }
  if (history) *history = hist.str();
  return out;
}

}  // namespace verif
