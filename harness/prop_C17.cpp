// C17 — the continuous solver honours real-valued net weights.
// Oracles: (1) bitwise invariance under a common factor 2^k, (2) tolerance
// invariance under factors 2.5 and 7, (3) agreement with a dense
// double-precision solve of the documented quadratic model (2-pin nets and the
// initial star model) within a conditioning-derived bound, (4) the same
// 2^k-invariance through Circuit::placeGlobal at the first lower bound.
#include <Eigen/Dense>
#include <cmath>
#include <cstring>

#include "gen_circuit.hpp"
#include "place_global/net_model.hpp"
#include "stages.hpp"

using namespace coloquinte;

namespace verif {
const char *propId() { return "C17"; }

namespace {
struct NetD {
  std::vector<int> cells;        // -1: fixed pin
  std::vector<float> offs;       // offset, or position for a fixed pin
  float weight;
};
struct Inst {
  int n;
  std::vector<NetD> nets;
  std::vector<float> pl, target, strength;
  NetModel::Parameters prm;
  std::string json() const {
    std::ostringstream s;
    s << "{\"cells\":" << n << ",\"model\":" << (int)prm.netModel << ",\"nets\":[";
    for (size_t i = 0; i < nets.size(); ++i) {
      s << (i ? "," : "") << "{\"w\":" << nets[i].weight << ",\"pins\":[";
      for (size_t k = 0; k < nets[i].cells.size(); ++k) s << (k ? "," : "") << "[" << nets[i].cells[k] << "," << nets[i].offs[k] << "]";
      s << "]}";
    }
    s << "],\"approximationDistance\":" << prm.approximationDistance << ",\"cutoff\":" << prm.penaltyCutoffDistance << "}";
    return s.str();
  }
};

NetModel build(const Inst &in, float factor) {
  NetModel m(in.n);
  for (auto &nt : in.nets) m.addNet(nt.cells, nt.offs, nt.weight * factor);
  m.check();
  return m;
}

bool bitEqual(const std::vector<float> &a, const std::vector<float> &b) {
  return a.size() == b.size() && (a.empty() || std::memcmp(a.data(), b.data(), a.size() * sizeof(float)) == 0);
}
double maxDiff(const std::vector<float> &a, const std::vector<float> &b) {
  double d = 0;
  for (size_t i = 0; i < a.size(); ++i) d = std::max(d, std::fabs((double)a[i] - b[i]));
  return d;
}
bool finite(const std::vector<float> &a) {
  for (float x : a)
    if (!std::isfinite(x)) return false;
  return true;
}

/// Dense model: A x = b over n cells + star variables.
struct Dense {
  Eigen::MatrixXd A;
  Eigen::VectorXd b;
  int n;
  void pin(int a, double oa, int c, double oc, double w) {
    // w * (x_a + oa - x_c - oc)^2 ; a or c may be -1 (fixed at its offset)
    if (a == c) return;
    if (a == -1) {
      A(c, c) += w;
      b(c) += w * (oa - oc);
      return;
    }
    if (c == -1) {
      A(a, a) += w;
      b(a) += w * (oc - oa);
      return;
    }
    A(a, a) += w, A(c, c) += w, A(a, c) -= w, A(c, a) -= w;
    b(a) += w * (oc - oa);
    b(c) += w * (oa - oc);
  }
};

/// Compare a library solution with the dense optimum; returns "" / "skip" / error.
std::string compareDense(Dense &d, const std::vector<float> &x, double tol, double range, double &ratio) {
  ratio = 0;
  Eigen::SelfAdjointEigenSolver<Eigen::MatrixXd> es(d.A);
  double lmin = es.eigenvalues().minCoeff(), lmax = es.eigenvalues().maxCoeff();
  if (!(lmin > 1e-9 * lmax) || lmin <= 0) return "skip";
  Eigen::VectorXd xs = d.A.ldlt().solve(d.b);
  double kappa = lmax / lmin;
  double bound = 10.0 * (tol * d.b.norm() / lmin + kappa * 1.2e-7 * std::max(xs.norm(), 1.0));
  if (bound > 0.01 * range) return "skip";
  double err = 0;
  for (int i = 0; i < d.n; ++i) err += ((double)x[i] - xs(i)) * ((double)x[i] - xs(i));
  err = std::sqrt(err);
  ratio = err / bound;
  if (err > bound) {
    std::ostringstream m;
    m << "solution differs from the weighted least-squares optimum of the documented model: |x-x*|=" << err
      << " bound=" << bound << " (cell 0: got " << x[0] << ", optimum " << xs(0) << ")";
    return m.str();
  }
  return "";
}
}  // namespace

bool prop(Tape &t, Report &R) {
  int mode = t.weighted({5, 1, 1});
  if (mode == 2) {
    // (4b) top level, relative weights: a net of weight m*u pulls like m
    // copies of weight u.  Same linear system up to float summation order, so
    // the exported first lower bound may differ by rounding only (+-2 units).
    R.classify("mode:placeGlobal-duplicated-nets");
    GenOpts o;
    o.globalDomain = true;
    o.maxCells = 10;
    o.maxLevels = 4;
    o.anchorPct = 100;
    o.overfull = false;
    o.forceScale = 0;
    o.anchorNear = true;
    CircuitSpec a = genCircuit(t, o);
    if (a.nets.empty() || a.nbMovable() == 0) {
      R.discard("no nets");
      return true;
    }
    CircuitSpec b = a;
    b.nets.clear();
    bool varied = false;
    int firstM = -1;
    for (auto &n : a.nets) {
      int m = t.choose(1, 3);
      float u = (float)t.choose(1, 12) * 0.25f;
      if (firstM < 0) firstM = m;
      varied |= m != firstM;
      n.weight = u * m;
      NetSpec c = n;
      c.weight = u;
      for (int k = 0; k < m; ++k) b.nets.push_back(c);
    }
    ColoquinteParameters params(t.choose(1, 9), 7);
    std::vector<std::vector<int>> first(2);
    for (int run = 0; run < 2; ++run) {
      Circuit c = (run ? b : a).build();
      PlacementCallback cb = [&](PlacementStep st) {
        if (st == PlacementStep::LowerBound) {
          first[run] = c.cellX();
          first[run].insert(first[run].end(), c.cellY().begin(), c.cellY().end());
          throw HarnessFault();
        }
      };
      StageResult r = runStage(c, kGlobal, params, cb);
      if (!r.harnessFault) return R.fail("placeGlobal did not reach its first lower bound: " + r.what);
    }
    for (size_t i = 0; i < first[0].size(); ++i)
      if (std::abs(first[0][i] - first[1][i]) > 2) {
        std::ostringstream m;
        m << "a net of weight m*u does not pull like m nets of weight u: first lower-bound coordinate " << i << " is "
          << first[0][i] << " vs " << first[1][i];
        return R.fail(m.str() + " " + a.json());
      }
    if (varied) R.nontrivial(a.hash() ^ 0x55, [&] { return a.json(12); });
    return true;
  }
  if (mode == 1) {
    // (4) top level: circuits differing only by a common factor 2^k on the net weights
    R.classify("mode:placeGlobal");
    GenOpts o;
    o.globalDomain = true;
    o.maxCells = 10;
    o.maxLevels = 4;
    o.anchorPct = 100;
    o.overfull = false;
    o.forceScale = 0;
    o.anchorNear = true;
    CircuitSpec s = genCircuit(t, o);
    if (s.nets.empty() || s.nbMovable() == 0) {
      R.discard("no nets");
      return true;
    }
    int k = t.choose(-6, 6);
    ColoquinteParameters params(t.choose(1, 9), 7);
    std::vector<std::vector<int>> first(2);
    for (int run = 0; run < 2; ++run) {
      Circuit c = s.build();
      std::vector<float> w;
      for (int i = 0; i < c.nbNets(); ++i) w.push_back(c.netWeight(i) * (run ? std::ldexp(1.0f, k) : 1.0f));
      c.setNetWeights(w);
      c.hasNetUpdate_ = false;
      PlacementCallback cb = [&](PlacementStep st) {
        if (st == PlacementStep::LowerBound) {
          first[run] = c.cellX();
          first[run].insert(first[run].end(), c.cellY().begin(), c.cellY().end());
          throw HarnessFault();
        }
      };
      StageResult r = runStage(c, kGlobal, params, cb);
      if (!r.harnessFault) return R.fail("placeGlobal did not reach its first lower bound: " + r.what);
    }
    if (first[0] != first[1]) {
      std::ostringstream m;
      m << "first lower-bound placement changes when every net weight is multiplied by 2^" << k;
      return R.fail(m.str() + " " + s.json());
    }
    bool frac = false, deg3 = false;
    for (auto &n : s.nets) frac |= n.weight != std::floor(n.weight), deg3 |= n.cells.size() >= 3;
    if (frac && deg3 && k != 0) R.nontrivial(s.hash() ^ Hasher().add(k).h, [&] { return s.json(12); });
    return true;
  }
  R.classify("mode:NetModel");
  Inst in;
  in.n = t.choose(1, 15);
  // length scale of the instance: coordinates in [0,100]*S (S = 1000: nets tens of thousands of units long)
  float S = t.flip(1, 4) ? 1000.0f : 1.0f;
  bool tinyWeights = t.flip(1, 5);
  int nn = t.choose(1, 20);
  bool twoPinOnly = t.flip(1, 3);
  bool allEqual = true, anyFrac = false, deg3 = false;
  float firstW = -1;
  std::vector<char> touched(in.n, 0);
  for (int k = 0; k < nn; ++k) {
    NetD nt;
    int deg = twoPinOnly ? 2 : t.weighted({0, 0, 5, 3, 2, 1});
    if (deg == 0) deg = 2;
    for (int q = 0; q < deg; ++q) {
      if (t.flip(1, 4)) {
        nt.cells.push_back(-1);
        nt.offs.push_back((float)t.real(0, 100) * S);
      } else {
        int c = t.choose(0, in.n - 1);
        nt.cells.push_back(c);
        nt.offs.push_back((float)(t.choose(-12, 12)) * 0.25f * S);
        touched[c] = 1;
      }
    }
    int wc = t.weighted({2, 3, 3});
    nt.weight = wc == 0 ? 1.0f : wc == 1 ? (float)t.choose(1, 32) * 0.25f : (float)t.real(0.25, 8.0);
    if (tinyWeights) nt.weight *= 1.0f / 1024.0f;  // fractional weights far below 1
    if (firstW < 0) firstW = nt.weight;
    allEqual &= nt.weight == firstW;
    anyFrac |= nt.weight != std::floor(nt.weight);
    deg3 |= deg >= 3;
    in.nets.push_back(nt);
  }
  // anchor every cell's component with probability 0.85 (else singular systems are counted and skipped)
  if ((int)(t.next() % 100) < 85) {
    for (int c = 0; c < in.n; ++c) {
      NetD nt;
      nt.cells = {c, -1};
      nt.offs = {0.0f, (float)t.real(0, 100) * S};
      nt.weight = (float)t.real(0.25, 4.0) * (tinyWeights ? 1.0f / 1024.0f : 1.0f);
      if (!touched[c] || t.flip(1, 3)) in.nets.push_back(nt);
    }
  }
  for (int c = 0; c < in.n; ++c) {
    in.pl.push_back((float)t.real(0, 100) * S);
    int tc = t.weighted({3, 1, 1});
    in.target.push_back(tc == 0 ? (float)t.real(0, 100) * S : tc == 1 ? in.pl.back() : (float)t.real(-100, 200) * S);
    in.strength.push_back((float)t.real(50, 500) * (tinyWeights ? 1.0f / 1024.0f : 1.0f));
  }
  in.prm.netModel = (NetModelOption)t.choose(0, 3);
  in.prm.approximationDistance = (float)t.real(1, 20) * S;
  in.prm.penaltyCutoffDistance = (float)t.real(100, 300) * S;
  in.prm.tolerance = 1e-6f;
  in.prm.maxNbIterations = 1000;
  R.classify("netmodel:" + std::to_string((int)in.prm.netModel));
  R.classify(S > 1 ? "length-scale:1000" : "length-scale:1");
  if (tinyWeights) R.classify("weights:/1024");
  const double range = 100.0 * S;

  NetModel base = build(in, 1.0f);
  std::vector<float> s0 = base.solveStar(in.prm), v0 = base.solve(in.pl, in.prm),
                     p0 = base.solveWithPenalty(in.pl, in.target, in.strength, in.prm);
  if (!finite(s0) || !finite(v0) || !finite(p0)) {
    R.classify("non-finite-result(singular)");
    // singular systems (components without a fixed pin): nothing to compare
    return true;
  }
  // (1) dyadic factor: bitwise
  int k = t.flip(1, 3) ? t.choose(-24, 24) : t.choose(-6, 6);
  if (k == 0) k = 3;
  float f = std::ldexp(1.0f, k);
  {
    NetModel m = build(in, f);
    std::vector<float> st = in.strength;
    for (float &x : st) x *= f;
    std::vector<float> s1 = m.solveStar(in.prm), v1 = m.solve(in.pl, in.prm), p1 = m.solveWithPenalty(in.pl, in.target, st, in.prm);
    const char *which = !bitEqual(s0, s1) ? "solveStar" : !bitEqual(v0, v1) ? "solve" : !bitEqual(p0, p1) ? "solveWithPenalty" : nullptr;
    if (which) {
      std::ostringstream m2;
      m2 << which << " changes when all weights" << (std::string(which) == "solveWithPenalty" ? " and penalty strengths" : "")
         << " are multiplied by 2^" << k << " (max deviation "
         << std::max({maxDiff(s0, s1), maxDiff(v0, v1), maxDiff(p0, p1)}) << ")";
      return R.fail(m2.str() + " " + in.json());
    }
  }
  // (2) non-dyadic factors: tolerance 1e-3 of the coordinate range (100)
  for (float g : {2.5f, 7.0f}) {
    NetModel m = build(in, g);
    std::vector<float> st = in.strength;
    for (float &x : st) x *= g;
    std::vector<float> s1 = m.solveStar(in.prm), v1 = m.solve(in.pl, in.prm), p1 = m.solveWithPenalty(in.pl, in.target, st, in.prm);
    double dev = std::max({maxDiff(s0, s1), maxDiff(v0, v1), maxDiff(p0, p1)});
    // only judged on well-conditioned instances: use the penalised solve (always anchored) strictly,
    // the others when the dense model below says they are well conditioned
    if (maxDiff(p0, p1) > 1e-3 * range) {
      std::ostringstream m2;
      m2 << "solveWithPenalty changes by " << maxDiff(p0, p1) << " when all weights and penalty strengths are multiplied by " << g;
      return R.fail(m2.str() + " " + in.json());
    }
    (void)dev;
  }
  // (3) dense reference: initial star model (any degrees) and 2-pin nets (all models, +- penalty)
  {
    int nstar = 0;
    for (auto &nt : in.nets)
      if (nt.cells.size() >= 3) ++nstar;
    Dense d;
    d.n = in.n;
    d.A = Eigen::MatrixXd::Zero(in.n + nstar, in.n + nstar);
    d.b = Eigen::VectorXd::Zero(in.n + nstar);
    int sv = in.n;
    for (auto &nt : in.nets) {
      int nb = nt.cells.size();
      if (nb <= 1) continue;
      if (nb == 2) {
        d.pin(nt.cells[0], nt.offs[0], nt.cells[1], nt.offs[1], nt.weight);
      } else {
        for (int i = 0; i < nb; ++i) d.pin(nt.cells[i], nt.offs[i], sv, 0.0, (double)nt.weight / nb);
        ++sv;
      }
    }
    double ratio;
    std::string e = compareDense(d, s0, in.prm.tolerance, range, ratio);
    if (e == "skip") R.classify("star:ill-conditioned-or-singular");
    else if (!e.empty()) return R.fail("solveStar: " + e + " " + in.json());
    else R.classify("star:compared-with-dense");
  }
  // Bound-to-bound picks the leftmost and the rightmost pin with strict
  // comparisons: when the two pins of a net coincide exactly, the same pin is
  // both, and the net is connected twice.  That tie is outside the documented
  // model (and of measure zero for real placements): not judged.
  bool exactTie = false;
  if (twoPinOnly && in.prm.netModel == NetModelOption::BoundToBound)
    for (auto &nt : in.nets) {
      float a = nt.cells[0] == -1 ? nt.offs[0] : in.pl[nt.cells[0]] + nt.offs[0];
      float b = nt.cells[1] == -1 ? nt.offs[1] : in.pl[nt.cells[1]] + nt.offs[1];
      if (a == b) exactTie = true;
    }
  if (exactTie) R.classify("two-pin:exact-tie-not-judged");
  if (twoPinOnly && !exactTie) {
    for (int withPen = 0; withPen < 2; ++withPen) {
      Dense d;
      d.n = in.n;
      d.A = Eigen::MatrixXd::Zero(in.n, in.n);
      d.b = Eigen::VectorXd::Zero(in.n);
      auto pos = [&](const NetD &nt, int i) { return nt.cells[i] == -1 ? (double)nt.offs[i] : (double)in.pl[nt.cells[i]] + nt.offs[i]; };
      for (auto &nt : in.nets) {
        double dist = std::fabs((float)pos(nt, 0) - (float)pos(nt, 1));
        double w = nt.weight / std::max((double)in.prm.approximationDistance, dist);
        d.pin(nt.cells[0], nt.offs[0], nt.cells[1], nt.offs[1], w);
      }
      if (withPen)
        for (int i = 0; i < in.n; ++i) {
          double dist = std::fabs(in.pl[i] - in.target[i]);
          double sgt = in.strength[i] / std::max(dist, (double)in.prm.penaltyCutoffDistance);
          d.A(i, i) += sgt;
          d.b(i) += sgt * in.target[i];
        }
      double ratio;
      std::string e = compareDense(d, withPen ? p0 : v0, in.prm.tolerance, range, ratio);
      if (e == "skip") R.classify("two-pin:ill-conditioned-or-singular");
      else if (!e.empty()) return R.fail(std::string(withPen ? "solveWithPenalty" : "solve") + " (2-pin nets): " + e + " " + in.json());
      else R.classify("two-pin:compared-with-dense");
    }
  }
  if (!allEqual && anyFrac && (deg3 || twoPinOnly)) {
    Hasher h;
    h.add(in.n).add((int)in.prm.netModel);
    for (auto &nt : in.nets) h.addv(nt.cells).addd(nt.weight);
    R.nontrivial(h.h, [&] { return in.json(); });
  }
  return true;
}

bool exhaustive(Report &, int, int, Tape &) { return true; }
}  // namespace verif
