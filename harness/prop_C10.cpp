// C10 — busy-circuit protocol and exception safety: refusal of structural
// setters inside callbacks, and for EVERY callback index of a run a fault
// injected there (exhaustive per instance).
#include "gen_circuit.hpp"
#include "stages.hpp"

using namespace coloquinte;

namespace verif {
const char *propId() { return "C10"; }

namespace {
/// Try every structural setter with valid arguments.  expectRefused: each must
/// throw and leave the frame unchanged; otherwise each must be accepted (they
/// are applied with values that keep the circuit equivalent).
std::string trySetters(Circuit &c, bool expectRefused) {
  Frame before = snap(c);
  int n = c.nbCells();
  struct Try {
    const char *name;
    std::function<void()> f;
  };
  std::vector<int> lim = c.netLimits_, pc = c.pinCells_, px = c.pinXOffsets_, py = c.pinYOffsets_;
  std::vector<float> wt = c.netWeights_;
  std::vector<Row> rows = c.rows();
  std::vector<bool> fx = c.cellIsFixed(), ob = c.cellIsObstruction();
  std::vector<CellRowPolarity> pol = c.cellRowPolarity();
  Rectangle area = c.computePlacementArea();
  int rh = c.rows().empty() ? 1 : c.rows()[0].height();
  std::vector<Try> tries = {
      {"setNets", [&] { c.setNets(lim, pc, px, py, wt); }},
      {"setRows", [&] { c.setRows(rows); }},
      {"setCellIsFixed", [&] { c.setCellIsFixed(fx); }},
      {"setCellIsObstruction", [&] { c.setCellIsObstruction(ob); }},
      {"setCellRowPolarity", [&] { c.setCellRowPolarity(pol); }},
      {"addNet", [&] { c.addNet({0}, {0}, {0}, 1.0f); }},
      {"setupRows", [&] { c.setupRows(area, rh); }},
  };
  for (auto &t : tries) {
    if (!expectRefused && (std::string(t.name) == "addNet" || std::string(t.name) == "setupRows")) continue;
    bool threw = false;
    std::string what;
    try {
      t.f();
    } catch (const std::exception &e) {
      threw = true;
      what = e.what();
    }
    if (expectRefused) {
      if (!threw) return std::string(t.name) + " was accepted while a placement call is in progress";
      std::string d = diffFrame(before, snap(c), false, true);
      if (!d.empty()) return std::string(t.name) + " was refused but changed the circuit: " + d;
    } else {
      if (threw) return std::string(t.name) + " is still refused after the placement call ended: " + what;
    }
  }
  (void)n;
  return "";
}

std::string afterCallChecks(Circuit &c, const char *how) {
  // modifications are accepted again, the circuit is consistent
  std::string e = trySetters(c, false);
  if (!e.empty()) return e + " (" + how + ")";
  try {
    c.check();
  } catch (const std::exception &ex) {
    return std::string("Circuit::check() fails ") + ex.what() + " (" + how + ")";
  }
  // the two setters that change the circuit, on a copy
  Circuit c2 = c;
  try {
    c2.addNet({0}, {0}, {0}, 1.0f);
    Rectangle area = c2.computePlacementArea();
    c2.setupRows(area, c2.rows().empty() ? 1 : c2.rows()[0].height());
  } catch (const std::exception &ex) {
    return std::string("addNet/setupRows still refused: ") + ex.what() + " (" + how + ")";
  }
  return "";
}
}  // namespace

bool prop(Tape &t, Report &R) {
  int stage = t.weighted({3, 3, 3});
  HistoryScope hist(t, R);
  GenOpts o;
  o.maxCells = 12;
  o.maxLevels = 6;
  if (stage == kGlobal) {
    o.globalDomain = true;
    o.anchorPct = 100;
    o.overfull = false;
  }
  CircuitSpec s = genCircuit(t, o);
  ParamOpts po;
  po.global = stage == kGlobal;
  po.maxNbSteps = 12;
  ColoquinteParameters params = genParams(t, po, &s.labels);
  int rejected = t.weighted({10, 1});
  if (rejected) params.legalization.orderingY = 5.0, s.labels.insert("params:rejected");
  s.labels.insert(std::string("stage:") + stageName(stage));
  for (auto &l : s.labels) R.classify(l);
  if (s.nbMovable() == 0) {
    R.discard("no movable cell");
    return true;
  }
  if (stage == kGlobal && !unanchoredComponents(s).empty()) {
    R.exclude("c06-unanchored-far-from-origin");
    return true;
  }

  // ---- reference run: refusal inside every callback; K = number of callbacks
  int K = 0;
  std::string cbErr;
  // At one tape-chosen invocation the callback also snapshots the circuit (a
  // copy) and runs a placement call on the copy, as a user doing a trial
  // legalization would: once that call has ended the copy accepts modifications.
  int copyAt = t.choose(0, 7);          // decided last: older tapes decode 0 here
  int copyEnds = t.choose(0, 2);        // 0 returns / infeasible, 1 throwing callback, 2 rejected parameters
  // a movable cell lower than a row: legalization then fails, and must leave the placement alone
  if (stage != kGlobal && addShortMovable(s, t.next())) R.classify("cells:movable-cell-lower-than-a-row");
  Circuit ref = s.build();
  Frame start = snap(ref);
  bool copied = false;
  PlacementCallback observe = [&](PlacementStep) {
    ++K;
    if (cbErr.empty()) {
      std::string e = trySetters(ref, true);
      if (!e.empty()) cbErr = e + " (callback " + std::to_string(K) + " of " + stageName(stage) + ")";
    }
    if (cbErr.empty() && K - 1 == copyAt) {
      copied = true;
      Circuit b = ref;
      ColoquinteParameters pb(params);
      pb.legalization.orderingY = copyEnds == 2 ? 5.0 : 0.0;
      PlacementCallback thrower = [](PlacementStep) { throw HarnessFault(); };
      StageResult rb = copyEnds == 1 ? runStage(b, kLegalize, pb, thrower) : runStage(b, kLegalize, pb);
      if (rb.otherException) {
        cbErr = "non-std exception from legalize on a copy";
        return;
      }
      std::string e = afterCallChecks(b, "placement call on a copy taken inside a callback has ended");
      if (!e.empty()) cbErr = e;
    }
  };
  StageResult rr = runStage(ref, stage, params, observe);
  if (rr.otherException) return R.fail("non-std exception");
  if (!cbErr.empty()) return R.fail(cbErr + " " + s.json());
  {
    std::string e = afterCallChecks(ref, rr.returned ? "after the call returned" : ("after the call threw: " + rr.what).c_str());
    if (!e.empty()) return R.fail(e + " " + s.json());
  }
  if (!rr.returned) {
    R.classify(rejected ? "fault:rejected-parameters" : "fault:placement-failed");
    if (stage == kLegalize || rejected) {
      // a failed legalization / refused call has left the placement exactly as it was
      std::string d = diffFrame(start, snap(ref), false, true);
      if (!d.empty()) return R.fail(std::string(stageName(stage)) + " failed (" + rr.what + ") but changed the placement: " + d + " " + s.json());
    }
  }
  Frame refEnd = snap(ref);
  // what a further legalization does on the never-faulted circuit
  ColoquinteParameters lp(params);
  lp.legalization.orderingY = 0.0;

  // ---- fault enumeration: every callback index
  long long faults = 0;
  for (int k = 0; k < K; ++k) {
    Circuit c = s.build();
    int calls = 0;
    PlacementCallback faulty = [&](PlacementStep) {
      if (calls++ == k) throw HarnessFault();
    };
    StageResult r = runStage(c, stage, params, faulty);
    ++faults;
    if (!r.harnessFault) {
      std::ostringstream m;
      m << "the exception thrown by the callback at invocation " << k << " of " << K << " did not reach the caller ("
        << (r.returned ? "call returned" : "other exception: " + r.what) << ")";
      return R.fail(m.str() + " " + s.json());
    }
    std::string e = afterCallChecks(c, ("after a callback fault at invocation " + std::to_string(k)).c_str());
    if (!e.empty()) return R.fail(e + " " + s.json());
    std::string d = diffFrame(start, snap(c), true, stage == kGlobal);
    if (!d.empty()) return R.fail("after a callback fault: " + d);
    // a further legalization behaves as on a never-faulted copy with the same placement
    Circuit twin = s.build();
    twin.setSolution(c.solution());
    StageResult a = runStage(c, kLegalize, lp), b = runStage(twin, kLegalize, lp);
    if (a.returned != b.returned)
      return R.fail("legalize after a callback fault behaves differently from a fresh circuit with the same placement " + s.json());
    if (snap(c).x != snap(twin).x || snap(c).y != snap(twin).y || snap(c).orient != snap(twin).orient)
      return R.fail("legalize after a callback fault gives another result than on a fresh circuit " + s.json());
  }
  R.classify("fault-points", faults);
  if (copied) R.classify("placement-call-on-a-copy-taken-inside-a-callback");
  bool nt = (K >= 3) || (!rr.returned && stage == kLegalize && s.nbMovable() >= 3);
  if (nt)
    R.nontrivial(s.hash() ^ Hasher().add(stage).add(rejected).h, [&] {
      return "{\"stage\":\"" + std::string(stageName(stage)) + "\",\"callback_invocations\":" + std::to_string(K) +
             ",\"reference_run\":\"" + (rr.returned ? "returned" : "threw") + "\",\"circuit\":" + s.json(12) + "}";
    });
  (void)refEnd;
  return true;
}

bool exhaustive(Report &, int, int, Tape &) { return true; }
}  // namespace verif
